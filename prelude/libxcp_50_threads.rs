// ---- prelude/libxcp_50_threads.rs: thread plumbing of the drivers (R14).  TRUSTED stand-ins.
// A spawned call runs on another thread against its own world; what the *driver* is checked for is structural:
// every spawned worker is joined and neither a panic nor an error result of any of them is dropped (C04), and the walker is handed an
// unbounded queue, so that it can never block on workers that have already exited (the termination argument of C07 for the work queue).
#[verifier::external_body]
#[verifier::reject_recursive_types(T)]
pub struct JoinHandle<T> { x: std::marker::PhantomData<T> }
#[verifier::external_body]
pub struct JoinPanic { x: u8 }
impl<T> JoinHandle<T> {
    pub uninterp spec fn res(&self) -> T;
    /// join: Err = the thread panicked; Ok(v) = its return value
    #[verifier::external_body]
    pub fn join(self) -> (r: std::result::Result<T, JoinPanic>)
        ensures r is Ok ==> r->Ok_0 == self.res(),
    { unimplemented!() }
}
/// ghost bookkeeping of the driver: how many threads were spawned, how many were joined with an Ok result
pub uninterp spec fn spawned(t: Seq<Event>) -> nat;

impl<T> cbc::Sender<T> { pub uninterp spec fn unbounded(&self) -> bool; }
impl<T> cbc::Receiver<T> {
    #[verifier::external_body]
    pub fn clone(&self) -> (r: cbc::Receiver<T>) { unimplemented!() }
}
pub mod cbc_ctor {
    use super::*;
    #[verifier::external_body]
    pub fn unbounded<T>() -> (r: (cbc::Sender<T>, cbc::Receiver<T>)) ensures r.0.unbounded() { unimplemented!() }
    #[verifier::external_body]
    pub fn bounded<T>(cap: usize) -> (r: (cbc::Sender<T>, cbc::Receiver<T>)) ensures !r.0.unbounded() { unimplemented!() }
}

#[verifier::external_body]
pub fn spawn__tree_walker(sources: Vec<PathBuf>, dest: &Path, config: &Config, work_tx: cbc::Sender<Operation>, stats: Arc<dyn StatusUpdater>, Tracked(w): Tracked<&mut World>)
    -> (r: JoinHandle<Result<()>>)
    requires work_tx.unbounded(),
    ensures *final(w) == *old(w),
{ unimplemented!() }
#[verifier::external_body]
pub fn spawn__copy_worker(work: cbc::Receiver<Operation>, config: &Arc<Config>, updates: Arc<dyn StatusUpdater>, Tracked(w): Tracked<&mut World>)
    -> (r: JoinHandle<Result<()>>)
    requires config.block_size >= 1,
    ensures *final(w) == *old(w),
{ unimplemented!() }
#[verifier::external_body]
pub fn spawn__dispatch_worker(file_q: cbc::Receiver<Operation>, stats: &Arc<dyn StatusUpdater>, config: Arc<Config>, Tracked(w): Tracked<&mut World>)
    -> (r: JoinHandle<Result<()>>)
    requires config.block_size >= 1,
    ensures *final(w) == *old(w),
{ unimplemented!() }

pub uninterp spec fn any_from_panic() -> AnyError;
