// ---- prelude/root_28_more_std.rs: further std / rustix stand-ins (TRUSTED).  None is used by the pinned code; they exist so that a *changed*
// tree that reaches for a neighbouring API still lies inside the verifier's subset (otherwise the check can only answer "undecided").
#[verifier::allow(undeclared_external_trait)]
pub assume_specification<T: std::cmp::Ord + std::marker::Destruct> [std::cmp::max](a: T, b: T) -> (r: T)
    ensures T::obeys_cmp_spec() ==> r == (if a.cmp_spec(&b) is Greater { a } else { b });

/// further std combinators and integer helpers without a vstd specification (their definitions)
pub assume_specification<T: Default, E>[Result::<T, E>::unwrap_or_default](r: std::result::Result<T, E>) -> (out: T)
    ensures r is Ok ==> out == r->Ok_0;
pub assume_specification<T, F: FnOnce(T) -> bool>[Option::<T>::is_some_and](o: Option<T>, f: F) -> (out: bool)
    requires o is Some ==> call_requires(f, (o->Some_0,)),
    ensures o is None ==> !out, o is Some ==> call_ensures(f, (o->Some_0,), out);
pub assume_specification<T, E, F: FnOnce(T) -> bool>[Result::<T, E>::is_ok_and](r: std::result::Result<T, E>, f: F) -> (out: bool)
    requires r is Ok ==> call_requires(f, (r->Ok_0,)),
    ensures r is Err ==> !out, r is Ok ==> call_ensures(f, (r->Ok_0,), out);
pub assume_specification<T, E, F: FnOnce(E) -> T>[Result::<T, E>::unwrap_or_else](r: std::result::Result<T, E>, f: F) -> (out: T)
    requires r is Err ==> call_requires(f, (r->Err_0,)),
    ensures r is Ok ==> out == r->Ok_0, r is Err ==> call_ensures(f, (r->Err_0,), out);
pub assume_specification<T, F: FnOnce(&T) -> bool>[Option::<T>::filter](o: Option<T>, f: F) -> (out: Option<T>)
    requires o is Some ==> call_requires(f, (&o->Some_0,)),
    ensures o is None ==> out is None, out is Some ==> out == o,
        o is Some ==> (out is Some <==> call_ensures(f, (&o->Some_0,), true));
pub assume_specification[u64::div_ceil](a: u64, b: u64) -> (out: u64)
    requires b > 0,
    ensures out as int == (if a % b == 0 { (a / b) as int } else { (a / b) as int + 1 });
pub assume_specification[usize::div_ceil](a: usize, b: usize) -> (out: usize)
    requires b > 0,
    ensures out as int == (if a % b == 0 { (a / b) as int } else { (a / b) as int + 1 });
pub assume_specification[u64::abs_diff](a: u64, b: u64) -> (out: u64)
    ensures out == (if a >= b { a - b } else { b - a });

/// `drop(x)`: ends the value's life here (A-drop: destructors of the modelled types are accounted for where the contracts say so)
pub assume_specification<T>[core::mem::drop::<T>](t: T);

/// std `Result::unwrap_or` / `Result::inspect_err` (their definitions; the closure of inspect_err only observes the error)
pub assume_specification<T, E>[Result::<T, E>::unwrap_or](r: std::result::Result<T, E>, default: T) -> (out: T)
    ensures out == (match r { Ok(v) => v, Err(_) => default });
pub assume_specification<T, E, F: FnOnce(&E)>[Result::<T, E>::inspect_err](r: std::result::Result<T, E>, f: F) -> (out: std::result::Result<T, E>)
    requires r is Err ==> call_requires(f, (&r->Err_0,)),
    ensures out == r;

#[verifier::external_body]
pub struct OsStr { x: u8 }
impl OsStr { pub uninterp spec fn key(&self) -> PathKey; }

impl File {
    /// fsync(2) / fdatasync(2) through std
    #[verifier::external_body]
    pub fn sync_all(&self, Tracked(w): Tracked<&mut World>) -> (r: std::result::Result<(), io::Error>)
        ensures fr_files(*old(w), *final(w)), final(w).files == old(w).files,
            match r {
                Ok(_) => final(w).faults == old(w).faults && final(w).trace == old(w).trace.push(Event::Fsync(self.inode())),
                Err(_) => final(w).faults == old(w).faults + 1 && final(w).trace == old(w).trace,
            },
    { unimplemented!() }
    /// fdatasync(2): data only; recorded as a different event, it is not the fsync the property asks for
    #[verifier::external_body]
    pub fn sync_data(&self, Tracked(w): Tracked<&mut World>) -> (r: std::result::Result<(), io::Error>)
        ensures fr_files(*old(w), *final(w)), final(w).files == old(w).files, final(w).trace == old(w).trace,
            final(w).faults == old(w).faults + (if r is Err { 1nat } else { 0 }),
    { unimplemented!() }
    /// ftruncate(2) through std
    #[verifier::external_body]
    pub fn set_len(&self, len: u64, Tracked(w): Tracked<&mut World>) -> (r: std::result::Result<(), io::Error>)
        ensures fr_files(*old(w), *final(w)),
            match r {
                Ok(_) => {
                    &&& final(w).faults == old(w).faults
                    &&& final(w).files == old(w).files.insert(self.inode(), fs_truncate(old(w).files[self.inode()], len as nat))
                    &&& final(w).trace == old(w).trace.push(Event::Ftruncate(self.inode(), len as nat))
                },
                Err(_) => final(w).faults == old(w).faults + 1 && final(w).files == old(w).files && final(w).trace == old(w).trace,
            },
    { unimplemented!() }
}

impl Metadata {
    #[verifier::external_body] pub fn is_file(&self) -> (r: bool) ensures r == (self.spec_kind() == NodeKind::File) { unimplemented!() }
    #[verifier::external_body] pub fn is_dir(&self) -> (r: bool) ensures r == (self.spec_kind() == NodeKind::Dir) { unimplemented!() }
    #[verifier::external_body] pub fn is_symlink(&self) -> (r: bool) ensures r == (self.spec_kind() == NodeKind::Symlink) { unimplemented!() }
    #[verifier::external_body] pub fn size(&self) -> (r: u64) ensures r == self.spec_len() { unimplemented!() }
    #[verifier::external_body] pub fn blocks(&self) -> (r: u64) ensures r == self.spec_blocks() { unimplemented!() }
    #[verifier::external_body] pub fn st_mode(&self) -> (r: u32) ensures r == self.spec_mode() { unimplemented!() }
    #[verifier::external_body] pub fn st_rdev(&self) -> (r: u64) ensures r == self.spec_rdev() { unimplemented!() }
    #[verifier::external_body] pub fn st_dev(&self) -> (r: u64) ensures r == self.spec_dev() { unimplemented!() }
    #[verifier::external_body] pub fn st_ino(&self) -> (r: u64) ensures r == self.spec_ino() { unimplemented!() }
    #[verifier::external_body] pub fn st_uid(&self) -> (r: u32) ensures r == self.spec_uid() { unimplemented!() }
    #[verifier::external_body] pub fn st_gid(&self) -> (r: u32) ensures r == self.spec_gid() { unimplemented!() }
    // second-resolution and link-count accessors: values opaque (no contract speaks about them)
    #[verifier::external_body] pub fn nlink(&self) -> (r: u64) { unimplemented!() }
    // MetadataExt: seconds and nanoseconds of the same snapshot
    #[verifier::external_body] pub fn mtime(&self) -> (r: i64) ensures r == self.spec_mtime().sec { unimplemented!() }
    #[verifier::external_body] pub fn atime(&self) -> (r: i64) ensures r == self.spec_atime().sec { unimplemented!() }
    #[verifier::external_body] pub fn ctime(&self) -> (r: i64) { unimplemented!() }
    #[verifier::external_body] pub fn mtime_nsec(&self) -> (r: i64) ensures r == self.spec_mtime().nsec { unimplemented!() }
    #[verifier::external_body] pub fn atime_nsec(&self) -> (r: i64) ensures r == self.spec_atime().nsec { unimplemented!() }
}
/// rustix::fs::{Timespec, Timestamps, futimens}
pub struct Timespec { pub tv_sec: i64, pub tv_nsec: i64 }
pub struct Timestamps { pub last_access: Timespec, pub last_modification: Timespec }
#[verifier::external_body]
pub fn futimens(fd: &File, times: &Timestamps, Tracked(w): Tracked<&mut World>) -> (r: std::result::Result<(), Errno>)
    ensures fr_files(*old(w), *final(w)),
        match r {
            Ok(_) => {
                let i = fd.inode(); let f = old(w).files[i];
                let na = Time { sec: times.last_access.tv_sec as int, nsec: times.last_access.tv_nsec as int };
                let nm = Time { sec: times.last_modification.tv_sec as int, nsec: times.last_modification.tv_nsec as int };
                &&& final(w).faults == old(w).faults
                &&& final(w).files == old(w).files.insert(i, FileState { atime: na, mtime: nm, ..f })
                &&& final(w).trace == old(w).trace.push(Event::Utimens(i, na, nm))
            },
            Err(_) => final(w).faults == old(w).faults + 1 && final(w).files == old(w).files && final(w).trace == old(w).trace,
        },
{ unimplemented!() }
/// rustix::fs::{makedev, major, minor}: glibc's dev_t layout
pub open spec fn spec_makedev(maj: u32, min: u32) -> u64 {
    (((maj as u64) & 0xffff_f000u64) << 32u64) | (((maj as u64) & 0xfffu64) << 8u64) | (((min as u64) & 0xffff_ff00u64) << 12u64) | ((min as u64) & 0xffu64)
}
pub open spec fn spec_major(dev: u64) -> u32 { (((dev >> 32u64) & 0xffff_f000u64) | ((dev >> 8u64) & 0xfffu64)) as u32 }
pub open spec fn spec_minor(dev: u64) -> u32 { (((dev >> 12u64) & 0xffff_ff00u64) | (dev & 0xffu64)) as u32 }
/// decomposing a device number and composing it again gives it back (proved, not assumed; restated on `makedev` so that callers see it)
pub proof fn lemma_dev_roundtrip(d: u64)
    ensures spec_makedev(spec_major(d), spec_minor(d)) == d
{
    assert(((((((((d >> 32u64) & 0xffff_f000u64) | ((d >> 8u64) & 0xfffu64)) as u32) as u64) & 0xffff_f000u64) << 32u64) | (((((((d >> 32u64) & 0xffff_f000u64) | ((d >> 8u64) & 0xfffu64)) as u32) as u64) & 0xfffu64) << 8u64) | (((((((d >> 12u64) & 0xffff_ff00u64) | (d & 0xffu64)) as u32) as u64) & 0xffff_ff00u64) << 12u64) | ((((((d >> 12u64) & 0xffff_ff00u64) | (d & 0xffu64)) as u32) as u64) & 0xffu64)) == d) by (bit_vector);
}
#[verifier::external_body] pub fn makedev(maj: u32, min: u32) -> (r: u64)
    ensures r == spec_makedev(maj, min), forall|d: u64| maj == spec_major(d) && min == spec_minor(d) ==> r == d
{ unimplemented!() }
#[verifier::external_body] pub fn major(dev: u64) -> (r: u32) ensures r == spec_major(dev) { unimplemented!() }
#[verifier::external_body] pub fn minor(dev: u64) -> (r: u32) ensures r == spec_minor(dev) { unimplemented!() }

impl File {
    /// std::io::Seek through `&File` (lseek with SEEK_SET): moves the *descriptor's cursor*, which every holder of the descriptor shares
    #[verifier::external_body]
    pub fn seek(&self, from: SeekFrom, Tracked(w): Tracked<&mut World>) -> (r: std::result::Result<u64, io::Error>)
        ensures fr_data(*old(w), *final(w)), final(w).eintr_left == old(w).eintr_left, final(w).files == old(w).files, final(w).trace == old(w).trace,
            forall|i: FdId| i != self.id() ==> final(w).cursor[i] == old(w).cursor[i],
            match r {
                Ok(p) => final(w).faults == old(w).faults && final(w).cursor[self.id()] == p && (from is Start ==> p == from->Start_0),
                Err(_) => final(w).faults == old(w).faults + 1 && final(w).cursor[self.id()] == old(w).cursor[self.id()],
            },
    { unimplemented!() }
    /// dup(2): a second descriptor for the same open file description (same inode, *shared* offset)
    #[verifier::external_body]
    pub fn try_clone(&self) -> (r: std::result::Result<File, io::Error>)
        ensures r is Ok ==> r->Ok_0.inode() == self.inode() && r->Ok_0.id() == self.id(),
    { unimplemented!() }
}

impl Path {
    // pure path inspection: results are opaque (no contract mentions path text)
    #[verifier::external_body] pub fn file_name(&self) -> (r: Option<&OsStr>) { unimplemented!() }
    #[verifier::external_body] pub fn extension(&self) -> (r: Option<&OsStr>) { unimplemented!() }
    #[verifier::external_body] pub fn parent(&self) -> (r: Option<&Path>) { unimplemented!() }
    #[verifier::external_body] pub fn is_absolute(&self) -> (r: bool) { unimplemented!() }
    #[verifier::external_body] pub fn is_relative(&self) -> (r: bool) { unimplemented!() }
    #[verifier::external_body] pub fn starts_with(&self, base: &Path) -> (r: bool) { unimplemented!() }
    #[verifier::external_body] pub fn ends_with(&self, child: &Path) -> (r: bool) { unimplemented!() }
    #[verifier::external_body] pub fn with_extension(&self, ext: &str) -> (r: Path) { unimplemented!() }
    #[verifier::external_body] pub fn with_file_name(&self, name: &str) -> (r: Path) { unimplemented!() }
    #[verifier::external_body] pub fn to_str(&self) -> (r: Option<&str>) { unimplemented!() }
    #[verifier::external_body] pub fn as_os_str(&self) -> (r: &OsStr) { unimplemented!() }
    #[verifier::external_body]
    pub fn try_exists(&self, Tracked(w): Tracked<&World>) -> (r: std::result::Result<bool, io::Error>)
        ensures r is Ok ==> r->Ok_0 == exists_m(w.paths, self.key()) { unimplemented!() }
}

pub mod fs_more {
    use super::*;
    /// link(2): a second name for the same inode; EEXIST when the new name is taken
    #[verifier::external_body]
    pub fn hard_link(a: &Path, b: &Path, Tracked(w): Tracked<&mut World>) -> (r: std::result::Result<(), io::Error>)
        ensures fr_ns(*old(w), *final(w)), final(w).eexist == old(w).eexist + (if r is Err && old(w).paths.contains_key(b.key()) { 1nat } else { 0 }),
            old(w).paths.contains_key(b.key()) ==> r is Err,
            match r {
                Ok(_) => {
                    &&& final(w).faults == old(w).faults && exists_m(old(w).paths, a.key()) && !old(w).paths.contains_key(b.key())
                    &&& final(w).paths == old(w).paths.insert(b.key(), final(w).paths[b.key()])
                    &&& final(w).paths[b.key()].inode == old(w).paths[a.key()].inode && final(w).paths[b.key()].reach
                    &&& final(w).paths[b.key()].kind == old(w).paths[a.key()].kind && final(w).paths[b.key()].tkind == old(w).paths[a.key()].tkind
                    &&& final(w).trace == old(w).trace.push(Event::Symlink(a.key(), b.key()))
                },
                Err(_) => final(w).faults == old(w).faults + 1 && final(w).paths == old(w).paths && final(w).trace == old(w).trace,
            },
    { unimplemented!() }
    /// rmdir(2): removes the directory's entry (like unlink for the namespace model)
    #[verifier::external_body]
    pub fn remove_dir(p: &Path, Tracked(w): Tracked<&mut World>) -> (r: std::result::Result<(), io::Error>)
        ensures fr_ns(*old(w), *final(w)), final(w).eexist == old(w).eexist,
            match r {
                Ok(_) => {
                    &&& final(w).faults == old(w).faults && old(w).paths.contains_key(p.key())
                    &&& (forall|k: PathKey| #[trigger] final(w).paths.contains_key(k) <==> (old(w).paths.contains_key(k) && old(w).paths[k].entry != old(w).paths[p.key()].entry))
                    &&& (forall|k: PathKey| #[trigger] final(w).paths.contains_key(k) ==> final(w).paths[k] == old(w).paths[k])
                    &&& final(w).trace == old(w).trace.push(Event::Remove(p.key()))
                },
                Err(_) => final(w).faults == old(w).faults + 1 && final(w).paths == old(w).paths && final(w).trace == old(w).trace,
            },
    { unimplemented!() }
    /// recursive removal / std::fs::copy: whatever they do to the namespace and to file contents is not modelled beyond the error accounting:
    /// code under contract that starts to call them cannot prove its frame (deliberately coarse)
    #[verifier::external_body]
    pub fn remove_dir_all(p: &Path, Tracked(w): Tracked<&mut World>) -> (r: std::result::Result<(), io::Error>)
        ensures final(w).faults == old(w).faults + (if r is Err { 1nat } else { 0 }), final(w).tolerated == old(w).tolerated,
            final(w).trace.len() > old(w).trace.len() || r is Err,
    { unimplemented!() }
    #[verifier::external_body]
    pub fn copy(a: &Path, b: &Path, Tracked(w): Tracked<&mut World>) -> (r: std::result::Result<u64, io::Error>)
        ensures final(w).faults == old(w).faults + (if r is Err { 1nat } else { 0 }), final(w).tolerated == old(w).tolerated,
            final(w).trace.len() > old(w).trace.len() || r is Err,
    { unimplemented!() }
    /// chmod(2) by path (follows links)
    #[verifier::external_body]
    pub fn set_permissions(p: &Path, perm: Permissions, Tracked(w): Tracked<&mut World>) -> (r: std::result::Result<(), io::Error>)
        ensures fr_files(*old(w), *final(w)),
            match r {
                Ok(_) => {
                    let i = old(w).paths[p.key()].inode;
                    &&& final(w).faults == old(w).faults && exists_m(old(w).paths, p.key())
                    &&& final(w).files == old(w).files.insert(i, FileState { mode: mode_perm(perm.spec_mode()), ..old(w).files[i] })
                    &&& final(w).trace == old(w).trace.push(Event::Chmod(i, mode_perm(perm.spec_mode())))
                },
                Err(_) => final(w).faults == old(w).faults + 1 && final(w).files == old(w).files && final(w).trace == old(w).trace,
            },
    { unimplemented!() }
    #[verifier::external_body]
    pub fn metadata(p: &Path, Tracked(w): Tracked<&mut World>) -> (r: std::result::Result<Metadata, io::Error>)
        ensures fr_ro(*old(w), *final(w)), final(w).faults == old(w).faults + (if r is Err && exists_m(old(w).paths, p.key()) { 1nat } else { 0 }),
            !exists_m(old(w).paths, p.key()) ==> r is Err,
            r is Ok ==> exists_m(old(w).paths, p.key()) && meta_of_node(r->Ok_0, old(w).paths[p.key()], old(w).files),
    { unimplemented!() }
    #[verifier::external_body]
    pub fn symlink_metadata(p: &Path, Tracked(w): Tracked<&mut World>) -> (r: std::result::Result<Metadata, io::Error>)
        ensures fr_ro(*old(w), *final(w)), final(w).faults == old(w).faults + (if r is Err && old(w).paths.contains_key(p.key()) { 1nat } else { 0 }),
            !old(w).paths.contains_key(p.key()) ==> r is Err,
            r is Ok ==> old(w).paths.contains_key(p.key()) && r->Ok_0.spec_kind() == old(w).paths[p.key()].kind && r->Ok_0.spec_len() == old(w).paths[p.key()].size
                && (old(w).paths[p.key()].kind != NodeKind::Symlink ==> meta_of_node(r->Ok_0, old(w).paths[p.key()], old(w).files)),
    { unimplemented!() }
    /// mkdir(2): fails with EEXIST when the name is taken (whatever is there)
    #[verifier::external_body]
    pub fn create_dir(p: &Path, Tracked(w): Tracked<&mut World>) -> (r: std::result::Result<(), io::Error>)
        ensures fr_ns(*old(w), *final(w)), final(w).eexist == old(w).eexist + (if r is Err && old(w).paths.contains_key(p.key()) { 1nat } else { 0 }),
            old(w).paths.contains_key(p.key()) ==> r is Err,
            match r {
                Ok(_) => {
                    &&& final(w).faults == old(w).faults && is_dir_m(final(w).paths, p.key())
                    &&& (forall|k: PathKey| #[trigger] old(w).paths.contains_key(k) ==> final(w).paths.contains_key(k) && final(w).paths[k] == old(w).paths[k])
                    &&& final(w).trace == old(w).trace.push(Event::Mkdir(p.key()))
                },
                Err(_) => final(w).faults == old(w).faults + 1 && final(w).paths == old(w).paths && final(w).trace == old(w).trace,
            },
    { unimplemented!() }
}

/// rustix::fs::fdatasync
#[verifier::external_body]
pub fn fdatasync(fd: &File, Tracked(w): Tracked<&mut World>) -> (r: std::result::Result<(), Errno>)
    ensures fr_files(*old(w), *final(w)), final(w).files == old(w).files, final(w).trace == old(w).trace,
        final(w).faults == old(w).faults + (if r is Err { 1nat } else { 0 }),
{ unimplemented!() }

pub struct FallocateFlags { pub bits: u32 }
impl FallocateFlags {
    pub fn empty() -> (r: FallocateFlags) ensures r.bits == 0 { FallocateFlags { bits: 0 } }
}
/// rustix::fs::fallocate with mode 0: *allocates* the range (every offset of it becomes data) and extends the file if needed
#[verifier::external_body]
pub fn fallocate(fd: &File, mode: FallocateFlags, off: u64, len: u64, Tracked(w): Tracked<&mut World>) -> (r: std::result::Result<(), Errno>)
    ensures fr_files(*old(w), *final(w)),
        match r {
            Ok(_) => {
                let f = old(w).files[fd.inode()];
                let nl = if off + len > f.bytes.len() { (off + len) as nat } else { f.bytes.len() };
                &&& final(w).faults == old(w).faults
                &&& final(w).files == old(w).files.insert(fd.inode(), FileState { bytes: fs_truncate(f, nl).bytes, data: f.data.union(span(off as int, len as int)), ..f })
                &&& final(w).trace == old(w).trace.push(Event::Write(fd.inode(), off as int, len as int))
            },
            Err(_) => final(w).faults == old(w).faults + 1 && final(w).files == old(w).files && final(w).trace == old(w).trace,
        },
{ unimplemented!() }

/// std::thread: only what extracted code may touch outside log macros (the spawn/join plumbing is rewritten, see R9)
pub mod thread {
    use super::*;
    #[verifier::external_body] pub struct Thread { x: u8 }
    #[verifier::external_body] #[derive(Clone, Copy)] pub struct ThreadId { x: u8 }
    #[verifier::external_body] pub fn current() -> (r: Thread) { unimplemented!() }
    impl Thread {
        #[verifier::external_body] pub fn id(&self) -> (r: ThreadId) { unimplemented!() }
    }
}
