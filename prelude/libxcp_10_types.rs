// ---- prelude/libxcp_10_types.rs: libxcp type mirrors and library stand-ins (TRUSTED) ----
use super::*;
pub use super::{Reflink, Backup};
use super::libfs::{
    allocate_file, copy_file_bytes, copy_owner, copy_permissions, copy_timestamps, is_same_file, next_sparse_segments,
    probably_sparse, reflink, sync, FileType, copy_node, copy_file_offset, map_extents, merge_extents, Extent,
    ext_wf, ext_sorted, ends_le, lemma_mirrors_wf, kext_wf, mirrors, inx, covered, in_gap, merge_gaps_ok,
};

// ---------------------------------------------------------------- anyhow
#[verifier::external_body]
pub struct AnyError { x: u8 }
pub type Result<T, E = AnyError> = std::result::Result<T, E>;
impl AnyError {
    #[verifier::external_body]
    pub fn to_string(&self) -> (r: String) { unimplemented!() }
}
pub uninterp spec fn any_from_fs(e: libfs::Error) -> AnyError;
pub uninterp spec fn any_from_io(e: io::Error) -> AnyError;
pub uninterp spec fn any_from_xcp(e: XcpError) -> AnyError;
pub uninterp spec fn any_from_strip(e: StripPrefixError) -> AnyError;
pub uninterp spec fn any_from_send(e: SendError) -> AnyError;
impl From<libfs::Error> for AnyError { #[verifier::external_body] fn from(e: libfs::Error) -> (r: AnyError) { unimplemented!() } }
impl vstd::std_specs::convert::FromSpecImpl<libfs::Error> for AnyError {
    open spec fn obeys_from_spec() -> bool { true }
    open spec fn from_spec(e: libfs::Error) -> AnyError { any_from_fs(e) }
}
impl From<io::Error> for AnyError { #[verifier::external_body] fn from(e: io::Error) -> (r: AnyError) { unimplemented!() } }
impl vstd::std_specs::convert::FromSpecImpl<io::Error> for AnyError {
    open spec fn obeys_from_spec() -> bool { true }
    open spec fn from_spec(e: io::Error) -> AnyError { any_from_io(e) }
}
impl From<XcpError> for AnyError { #[verifier::external_body] fn from(e: XcpError) -> (r: AnyError) { unimplemented!() } }
impl vstd::std_specs::convert::FromSpecImpl<XcpError> for AnyError {
    open spec fn obeys_from_spec() -> bool { true }
    open spec fn from_spec(e: XcpError) -> AnyError { any_from_xcp(e) }
}
impl From<StripPrefixError> for AnyError { #[verifier::external_body] fn from(e: StripPrefixError) -> (r: AnyError) { unimplemented!() } }
impl vstd::std_specs::convert::FromSpecImpl<StripPrefixError> for AnyError {
    open spec fn obeys_from_spec() -> bool { true }
    open spec fn from_spec(e: StripPrefixError) -> AnyError { any_from_strip(e) }
}
impl From<SendError> for AnyError { #[verifier::external_body] fn from(e: SendError) -> (r: AnyError) { unimplemented!() } }
impl vstd::std_specs::convert::FromSpecImpl<SendError> for AnyError {
    open spec fn obeys_from_spec() -> bool { true }
    open spec fn from_spec(e: SendError) -> AnyError { any_from_send(e) }
}
impl libfs::Error {
    #[verifier::external_body]
    pub fn to_string(&self) -> (r: String) { unimplemented!() }
}
impl io::Error {
    #[verifier::external_body]
    pub fn to_string(&self) -> (r: String) { unimplemented!() }
}

/// crossbeam SendError (payload dropped)
#[verifier::external_body]
pub struct SendError { x: u8 }

// ---------------------------------------------------------------- errors.rs (mirror of the thiserror enum)
pub enum XcpError {
    CopyError(String),
    DestinationExists(&'static str, PathBuf),
    EarlyShutdown(&'static str),
    InvalidArguments(String),
    InvalidDestination(&'static str),
    InvalidSource(&'static str),
    ReflinkFailed(String),
    UnknownDriver(String),
    UnknownFileType(PathBuf),
    UnsupportedOS(&'static str),
}

// ---------------------------------------------------------------- feedback.rs: the updater trait with its contract
/// What any StatusUpdater is assumed to do (the two provided implementations are checked against it):
/// an accepted update is counted; a refused one is a failed required step.
pub trait StatusUpdater {
    /// identity of the channel the accepted updates are delivered to (negative: nowhere)
    spec fn sink(&self) -> int;
    fn send(&self, update: StatusUpdate, Tracked(w): Tracked<&mut World>) -> (r: Result<()>)
        ensures
            fr_chan(*old(w), *final(w)), final(w).faults >= old(w).faults,
            match r {
                Ok(_) => {
                    &&& final(w).faults == old(w).faults
                    &&& final(w).reported == old(w).reported + (if update is Copied { update->Copied_0 as nat } else { 0 })
                    &&& final(w).announced == old(w).announced + (if update is Size { update->Size_0 as nat } else { 0 })
                    &&& final(w).errors_sent == old(w).errors_sent + (if update is Error { 1nat } else { 0 })
                    &&& final(w).trace == old(w).trace.push(match update {
                            StatusUpdate::Copied(n) => Event::SendCopied(n), StatusUpdate::Size(n) => Event::SendSize(n), StatusUpdate::Error(_) => Event::SendError })
                },
                Err(_) => final(w).faults == old(w).faults + 1 && final(w).reported == old(w).reported && final(w).announced == old(w).announced
                    && final(w).errors_sent == old(w).errors_sent && final(w).trace == old(w).trace,
            };
}

// ---------------------------------------------------------------- backup.rs: string/regex/ReadDir code stays TRUSTED
/// has_backup: scans the directory of `file` for `<name>.~N~` siblings (regex + ReadDir; out of Verus' reach)
/// whether the directory of `k` holds a sibling `<name>.~N~` (what has_backup is meant to compute; the bounded check compares the code with it)
pub uninterp spec fn has_numbered_backup(ps: Map<PathKey, Node>, k: PathKey) -> bool;
#[verifier::external_body]
pub fn has_backup(file: &Path, Tracked(w): Tracked<&mut World>) -> (r: Result<bool>)
    ensures fr_ro(*old(w), *final(w)), final(w).faults == old(w).faults + (if r is Err { 1nat } else { 0 }),
        r is Ok ==> r->Ok_0 == has_numbered_backup(old(w).paths, file.key()),
{ unimplemented!() }

/// get_backup_path: ASSUMED to return a sibling name that does not exist yet and differs from `file`
/// (reading the code: false for non-UTF-8 names, see DESIGN.md §5 C09; this machinery cannot decide it)
/// `b` is a numbered-backup name `<k>.~N~` of the path `k` (what get_backup_path is meant to build; compared with the code by the bounded check)
pub uninterp spec fn backup_name_of(b: PathKey, k: PathKey) -> bool;
#[verifier::external_body]
pub fn get_backup_path(file: &Path, Tracked(w): Tracked<&mut World>) -> (r: Result<PathBuf>)
    ensures fr_ro(*old(w), *final(w)), final(w).faults == old(w).faults + (if r is Err { 1nat } else { 0 }),
        r is Ok ==> !old(w).paths.contains_key(r->Ok_0.key()) && r->Ok_0.key() != file.key() && backup_name_of(r->Ok_0.key(), file.key()),
{ unimplemented!() }

// ---------------------------------------------------------------- spec vocabulary for the copy handle
pub open spec fn zeros(n: nat) -> Seq<u8> { Seq::new(n, |i: int| 0u8) }

impl CopyHandle {
    /// the handle's descriptors are distinct objects on distinct inodes, and the cached length is the source's
    pub open spec fn wf(&self, w: World) -> bool {
        &&& self.infd.inode() != self.outfd.inode()
        &&& self.infd.id() != self.outfd.id()
        &&& self.metadata.spec_len() == w.files[self.infd.inode()].bytes.len()
        &&& self.metadata.spec_len() <= i64::MAX
    }
}
/// events a data copy may emit: writes on the destination and progress updates
pub open spec fn is_copy_event(e: Event, out: Inode) -> bool { is_write_on(e, out) || e is SendCopied }
pub open spec fn ext_copy(t0: Seq<Event>, t1: Seq<Event>, out: Inode) -> bool {
    tr_ext(t0, t1) && forall|k: int| t0.len() <= k < t1.len() ==> is_copy_event(#[trigger] t1[k], out)
}
