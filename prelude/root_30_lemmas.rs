// ---- prelude/root_30_lemmas.rs: proved lemmas (no trust: each is checked by Verus on every run) ----
pub proof fn lemma_patch_append(out: Seq<u8>, off: int, a: Seq<u8>, b: Seq<u8>)
    requires off >= 0
    ensures patched(patched(out, off, a), off + a.len(), b) =~= patched(out, off, a + b)
{
    if a.len() == 0 { assert(a + b =~= b); } else if b.len() == 0 { assert(a + b =~= a); } else { }
}

pub proof fn lemma_fs_write_append(f: FileState, off: int, a: Seq<u8>, b: Seq<u8>)
    requires off >= 0
    ensures fs_write(fs_write(f, off, a), off + a.len(), b) == fs_write(f, off, a + b)
{
    lemma_patch_append(f.bytes, off, a, b);
    let l = fs_write(fs_write(f, off, a), off + a.len(), b);
    let r = fs_write(f, off, a + b);
    assert(l.data =~= r.data);
    assert(l.bytes =~= r.bytes);
}

pub proof fn lemma_fs_write_empty(f: FileState, off: int)
    ensures fs_write(f, off, Seq::<u8>::empty()) == f
{
    assert(fs_write(f, off, Seq::<u8>::empty()).data =~= f.data);
}

pub proof fn lemma_sub_append(s: Seq<u8>, a: int, n: int, m: int)
    requires 0 <= a, 0 <= n, 0 <= m, a + n + m <= s.len()
    ensures sub(s, a, n) + sub(s, a + n, m) =~= sub(s, a, n + m)
{
}
