// ---- prelude/root_20_std.rs: stand-ins for std / rustix / libc (TRUSTED: the assumed kernel contracts of DESIGN.md §3.3) ----

// ---------------------------------------------------------------- errno / io::Error
#[derive(PartialEq, Eq, Clone, Copy, Structural)]
pub struct Errno(pub u16);
impl Errno {
    pub const PERM: Errno = Errno(1);
    pub const NXIO: Errno = Errno(6);
    pub const XDEV: Errno = Errno(18);
    pub const NOSYS: Errno = Errno(38);
    pub const OPNOTSUPP: Errno = Errno(95);
    pub const IO: Errno = Errno(5);
    pub const AGAIN: Errno = Errno(11);
    pub const ACCESS: Errno = Errno(13);
    pub const BUSY: Errno = Errno(16);
    pub const INVAL: Errno = Errno(22);
    pub const NOSPC: Errno = Errno(28);
    pub const INTR: Errno = Errno(4);
    pub const NOENT: Errno = Errno(2);
    pub const BADF: Errno = Errno(9);
    pub const NOMEM: Errno = Errno(12);
    pub const EXIST: Errno = Errno(17);
    pub const NOTDIR: Errno = Errno(20);
    pub const ISDIR: Errno = Errno(21);
    pub const MFILE: Errno = Errno(24);
    pub const FBIG: Errno = Errno(27);
    pub const ROFS: Errno = Errno(30);
    pub const NAMETOOLONG: Errno = Errno(36);
    pub const NOTEMPTY: Errno = Errno(39);
    pub const LOOP: Errno = Errno(40);
    pub const NOTSUP: Errno = Errno(95);
    pub const DQUOT: Errno = Errno(122);
    pub const TXTBSY: Errno = Errno(26);
    pub const OVERFLOW: Errno = Errno(75);
}

#[derive(PartialEq, Eq, Clone, Copy, Structural)]
pub enum ErrorKind { NotFound, PermissionDenied, AlreadyExists, InvalidInput, Interrupted, Unsupported, WouldBlock, Other }

pub mod io {
    use super::*;
    pub use super::ErrorKind;

    #[verifier::external_body]
    pub struct Error { x: u8 }
    impl Error {
        pub uninterp spec fn code(&self) -> Option<i32>;
        pub uninterp spec fn spec_kind(&self) -> ErrorKind;
        #[verifier::external_body]
        pub fn last_os_error(Tracked(w): Tracked<&mut World>) -> (r: Error)
            ensures *final(w) == *old(w), r.code() == Some(old(w).errno as i32), i32::MIN <= old(w).errno <= i32::MAX,
        { unimplemented!() }
        #[verifier::external_body]
        pub fn from_raw_os_error(code: i32) -> (r: Error) ensures r.code() == Some(code) { unimplemented!() }
        #[verifier::external_body]
        pub fn raw_os_error(&self) -> (r: Option<i32>) ensures r == self.code() { unimplemented!() }
        #[verifier::external_body]
        pub fn kind(&self) -> (r: ErrorKind) ensures r == self.spec_kind() { unimplemented!() }
    }
}

/// the kernel's errno answer to the failed libc call whose event sits at trace position `n` (each modelled libc call appends one event,
/// so within one run a position names one call); `World::errno` is the thread's errno variable, which later calls can replace
pub uninterp spec fn kerrno_at(n: nat) -> int;

/// a log line (R28): everything it can do to the model is replace errno
#[verifier::external_body]
pub fn log_line(Tracked(w): Tracked<&mut World>)
    ensures *final(w) == (World { errno: final(w).errno, ..*old(w) }),
{ unimplemented!() }

pub mod libc {
    use super::*;
    /// process credentials: values opaque (no contract depends on who runs xcp: whether a chown is permitted is the kernel's answer)
    #[verifier::external_body] pub unsafe fn geteuid() -> (r: u32) { unimplemented!() }
    #[verifier::external_body] pub unsafe fn getuid() -> (r: u32) { unimplemented!() }
    #[verifier::external_body] pub unsafe fn getegid() -> (r: u32) { unimplemented!() }
    pub const EOPNOTSUPP: i32 = 95;
    pub const EINVAL: i32 = 22;
    pub const EXDEV: i32 = 18;
    pub const ETXTBSY: i32 = 26;
    // not used by the pinned code; present so that a changed errno list still type-checks (values checked by the conformance build)
    pub const EPERM: i32 = 1;
    pub const EIO: i32 = 5;
    pub const EAGAIN: i32 = 11;
    pub const EACCES: i32 = 13;
    pub const EBUSY: i32 = 16;
    pub const ENOSPC: i32 = 28;
    pub const ENOSYS: i32 = 38;
    pub const ENOTSUP: i32 = 95;

    /// K-ficlone.  Only the FICLONE form `ioctl(dst, FICLONE, src)` is modelled (the FIEMAP call sits in the
    /// trusted `fiemap`).  Success gives the destination the source's content; failure changes nothing and sets errno.
    #[verifier::external_body]
    pub unsafe fn ioctl(fd: i32, req: u64, arg: i32, Tracked(w): Tracked<&mut World>) -> (r: i32)
        ensures
            fr_libc(*old(w), *final(w)), final(w).cursor == old(w).cursor, final(w).faults == old(w).faults,
            r == 0 || r == -1,
            req == super::FICLONE as u64 ==> ({
                let src = inode_of_raw(arg); let dst = inode_of_raw(fd);
                &&& final(w).trace == old(w).trace.push(Event::Clone(src, dst, r == 0))
                &&& r == 0 ==> final(w).files == old(w).files.insert(dst,
                        FileState { bytes: old(w).files[src].bytes, data: old(w).files[src].data, ..old(w).files[dst] })
                &&& r != 0 ==> final(w).files == old(w).files && final(w).errno > 0 && final(w).errno == kerrno_at(old(w).trace.len())
            }),
    { unimplemented!() }
}
pub const FICLONE: u32 = 0x40049409;
pub const FIEMAP_EXTENT_LAST: u32 = 0x1;
pub const FIEMAP_EXTENT_SHARED: u32 = 0x2000;
// not used by the pinned code (values checked by the conformance build)
pub const FIEMAP_EXTENT_UNKNOWN: u32 = 2;
pub const FIEMAP_EXTENT_DELALLOC: u32 = 4;
pub const FIEMAP_EXTENT_ENCODED: u32 = 8;
pub const FIEMAP_EXTENT_DATA_INLINE: u32 = 512;
pub const FIEMAP_EXTENT_UNWRITTEN: u32 = 2048;
pub const FIEMAP_EXTENT_MERGED: u32 = 4096;
pub const FIEMAP_FLAG_SYNC: u32 = 1;

pub uninterp spec fn inode_of_raw(fd: i32) -> Inode;

// ---------------------------------------------------------------- File
#[verifier::external_body]
pub struct File { x: u8 }

pub enum SeekFrom { Start(u64), Data(u64), Hole(u64) }

#[verifier::external_body]
pub struct SystemTime { x: u8 }
impl SystemTime { pub uninterp spec fn t(&self) -> Time; }

#[verifier::external_body]
pub struct Permissions { x: u8 }
impl Permissions {
    pub uninterp spec fn spec_mode(&self) -> u32;
    #[verifier::external_body]
    pub fn mode(&self) -> (r: u32) ensures r == self.spec_mode() { unimplemented!() }
    #[verifier::external_body]
    pub fn from_mode(m: u32) -> (r: Permissions) ensures r.spec_mode() == m { unimplemented!() }
    #[verifier::external_body]
    pub fn set_mode(&mut self, m: u32) ensures final(self).spec_mode() == m { unimplemented!() }
}
/// st_mode -> permission bits (st_mode & 0o7777) and file type (st_mode & S_IFMT)
pub uninterp spec fn mode_perm(m: u32) -> u32;
pub uninterp spec fn mode_kind(m: u32) -> NodeKind;

pub struct FileTimes { pub a: Ghost<Option<Time>>, pub m: Ghost<Option<Time>> }
impl FileTimes {
    pub fn new() -> (r: FileTimes) ensures r.a@ is None, r.m@ is None { FileTimes { a: Ghost(None), m: Ghost(None) } }
    pub fn set_accessed(self, t: SystemTime) -> (r: FileTimes) ensures r.a@ == Some(t.t()), r.m@ == self.m@ { FileTimes { a: Ghost(Some(t.t())), m: self.m } }
    pub fn set_modified(self, t: SystemTime) -> (r: FileTimes) ensures r.m@ == Some(t.t()), r.a@ == self.a@ { FileTimes { a: self.a, m: Ghost(Some(t.t())) } }
}

pub mod fs_filetype {
    use super::*;
    /// std::fs::FileType
    #[verifier::external_body]
    pub struct FileType { x: u8 }
    impl FileType {
        pub uninterp spec fn kind(&self) -> NodeKind;
        #[verifier::external_body] pub fn is_dir(&self) -> (r: bool) ensures r == (self.kind() == NodeKind::Dir) { unimplemented!() }
        #[verifier::external_body] pub fn is_file(&self) -> (r: bool) ensures r == (self.kind() == NodeKind::File) { unimplemented!() }
        #[verifier::external_body] pub fn is_symlink(&self) -> (r: bool) ensures r == (self.kind() == NodeKind::Symlink) { unimplemented!() }
        #[verifier::external_body] pub fn is_socket(&self) -> (r: bool) ensures r == (self.kind() == NodeKind::Socket) { unimplemented!() }
        #[verifier::external_body] pub fn is_fifo(&self) -> (r: bool) ensures r == (self.kind() == NodeKind::Fifo) { unimplemented!() }
        #[verifier::external_body] pub fn is_char_device(&self) -> (r: bool) ensures r == (self.kind() == NodeKind::Char) { unimplemented!() }
        #[verifier::external_body] pub fn is_block_device(&self) -> (r: bool) ensures r == (self.kind() == NodeKind::Block) { unimplemented!() }
    }
    /// std's `FileType: PartialEq` compares the type bits of st_mode
    impl PartialEq for FileType {
        #[verifier::external_body]
        fn eq(&self, other: &FileType) -> (r: bool) { unimplemented!() }
    }
    impl vstd::std_specs::cmp::PartialEqSpecImpl for FileType {
        open spec fn obeys_eq_spec() -> bool { true }
        open spec fn eq_spec(&self, other: &FileType) -> bool { self.kind() == other.kind() }
    }
}

/// std::fs::Metadata: an immutable snapshot taken by (l)stat / fstat
#[verifier::external_body]
pub struct Metadata { x: u8 }
impl Metadata {
    pub uninterp spec fn spec_len(&self) -> u64;
    pub uninterp spec fn spec_blocks(&self) -> u64;
    pub uninterp spec fn spec_mode(&self) -> u32;      // full st_mode
    pub uninterp spec fn spec_kind(&self) -> NodeKind;
    pub uninterp spec fn spec_uid(&self) -> u32;
    pub uninterp spec fn spec_gid(&self) -> u32;
    pub uninterp spec fn spec_ino(&self) -> u64;
    pub uninterp spec fn spec_dev(&self) -> u64;
    pub uninterp spec fn spec_rdev(&self) -> u64;
    pub uninterp spec fn spec_atime(&self) -> Time;
    pub uninterp spec fn spec_mtime(&self) -> Time;
    #[verifier::external_body] pub fn len(&self) -> (r: u64) ensures r == self.spec_len() { unimplemented!() }
    #[verifier::external_body] pub fn st_size(&self) -> (r: u64) ensures r == self.spec_len() { unimplemented!() }
    #[verifier::external_body] pub fn st_blocks(&self) -> (r: u64) ensures r == self.spec_blocks() { unimplemented!() }
    #[verifier::external_body] pub fn permissions(&self) -> (r: Permissions) ensures r.spec_mode() == self.spec_mode() { unimplemented!() }
    #[verifier::external_body] pub fn mode(&self) -> (r: u32) ensures r == self.spec_mode() { unimplemented!() }
    #[verifier::external_body] pub fn uid(&self) -> (r: u32) ensures r == self.spec_uid() { unimplemented!() }
    #[verifier::external_body] pub fn gid(&self) -> (r: u32) ensures r == self.spec_gid() { unimplemented!() }
    #[verifier::external_body] pub fn ino(&self) -> (r: u64) ensures r == self.spec_ino() { unimplemented!() }
    #[verifier::external_body] pub fn dev(&self) -> (r: u64) ensures r == self.spec_dev() { unimplemented!() }
    #[verifier::external_body] pub fn rdev(&self) -> (r: u64) ensures r == self.spec_rdev() { unimplemented!() }
    #[verifier::external_body] pub fn file_type(&self) -> (r: fs::FileType) ensures r.kind() == self.spec_kind() { unimplemented!() }
    /// reading a field of the snapshot: cannot fail on Linux (the Result is for platforms without the field)
    #[verifier::external_body] pub fn accessed(&self) -> (r: std::result::Result<SystemTime, io::Error>)
        ensures r is Ok && r->Ok_0.t() == self.spec_atime() { unimplemented!() }
    #[verifier::external_body] pub fn modified(&self) -> (r: std::result::Result<SystemTime, io::Error>)
        ensures r is Ok && r->Ok_0.t() == self.spec_mtime() { unimplemented!() }
}
/// a Metadata value describes inode state `f`
pub open spec fn meta_of_file(m: Metadata, f: FileState) -> bool {
    &&& m.spec_len() == f.bytes.len()
    &&& m.spec_blocks() == f.blocks
    &&& mode_perm(m.spec_mode()) == f.mode
    &&& m.spec_uid() == f.uid && m.spec_gid() == f.gid
    &&& m.spec_atime() == f.atime && m.spec_mtime() == f.mtime
}

/// set-id bits possibly cleared by chown (K-fchown): everything else is kept
pub uninterp spec fn chown_mode(m: u32) -> u32;

impl File {
    pub uninterp spec fn inode(&self) -> Inode;
    pub uninterp spec fn id(&self) -> FdId;
    pub uninterp spec fn raw(&self) -> i32;

    #[verifier::external_body]
    pub fn as_raw_fd(&self) -> (r: i32) ensures r == self.raw(), inode_of_raw(r) == self.inode() { unimplemented!() }

    /// fstat
    #[verifier::external_body]
    pub fn metadata(&self, Tracked(w): Tracked<&mut World>) -> (r: std::result::Result<Metadata, io::Error>)
        ensures fr_ro(*old(w), *final(w)),
            final(w).faults == old(w).faults + (if r is Err { 1nat } else { 0 }),
            r is Ok ==> meta_of_file(r->Ok_0, old(w).files[self.inode()]) && r->Ok_0.spec_kind() == NodeKind::File,
            old(w).files[self.inode()].bytes.len() <= i64::MAX,   // off_t
    { unimplemented!() }

    /// K-read: read(2) at the descriptor's cursor.  EINTR transfers nothing and is not counted as a fault.
    #[verifier::external_body]
    pub fn read(&self, buf: &mut [u8], Tracked(w): Tracked<&mut World>) -> (r: std::result::Result<usize, io::Error>)
        ensures fr_data(*old(w), *final(w)), final(w).files == old(w).files, final(w).trace == old(w).trace,
            final(buf)@.len() == old(buf)@.len(),
            forall|i: FdId| i != self.id() ==> final(w).cursor[i] == old(w).cursor[i],
            match r {
                Ok(n) => {
                    let pos = old(w).cursor[self.id()] as int; let src = old(w).files[self.inode()].bytes;
                    &&& final(w).faults == old(w).faults
                    &&& n <= old(buf)@.len()
                    &&& (n == 0 <==> (old(buf)@.len() == 0 || pos >= src.len()))
                    &&& (n > 0 ==> pos + n <= src.len())
                    &&& final(buf)@.subrange(0, n as int) == src.subrange(pos, pos + n)
                    &&& final(w).cursor[self.id()] == pos + n
                    &&& final(w).eintr_left == old(w).eintr_left
                },
                Err(e) => {
                    &&& final(w).cursor[self.id()] == old(w).cursor[self.id()]
                    &&& final(w).faults == old(w).faults + (if e.spec_kind() == ErrorKind::Interrupted { 0nat } else { 1 })
                    &&& (e.spec_kind() == ErrorKind::Interrupted ==> old(w).eintr_left > 0 && final(w).eintr_left == old(w).eintr_left - 1)
                },
            },
    { unimplemented!() }

    /// K-write_all: loops write(2) at the cursor until everything is written or an error occurs.
    #[verifier::external_body]
    pub fn write_all(&self, buf: &[u8], Tracked(w): Tracked<&mut World>) -> (r: std::result::Result<(), io::Error>)
        ensures fr_data(*old(w), *final(w)), final(w).eintr_left == old(w).eintr_left,
            forall|i: FdId| i != self.id() ==> final(w).cursor[i] == old(w).cursor[i],
            forall|j: Inode| j != self.inode() ==> final(w).files[j] == old(w).files[j],
            match r {
                Ok(_) => {
                    let pos = old(w).cursor[self.id()] as int;
                    &&& final(w).faults == old(w).faults
                    &&& final(w).files == old(w).files.insert(self.inode(), fs_write(old(w).files[self.inode()], pos, buf@))
                    &&& final(w).cursor[self.id()] == pos + buf@.len()
                    &&& final(w).trace == old(w).trace.push(Event::Write(self.inode(), pos, buf@.len() as int))
                },
                Err(_) => final(w).faults == old(w).faults + 1 && ext_writes(old(w).trace, final(w).trace, self.inode()),
            },
    { unimplemented!() }

    /// K-write: one write(2) at the cursor: some non-empty prefix of a non-empty buffer is written (a short count is legal), or an error
    #[verifier::external_body]
    pub fn write(&self, buf: &[u8], Tracked(w): Tracked<&mut World>) -> (r: std::result::Result<usize, io::Error>)
        ensures fr_data(*old(w), *final(w)), final(w).eintr_left == old(w).eintr_left,
            forall|i: FdId| i != self.id() ==> final(w).cursor[i] == old(w).cursor[i],
            forall|j: Inode| j != self.inode() ==> final(w).files[j] == old(w).files[j],
            match r {
                Ok(n) => {
                    let pos = old(w).cursor[self.id()] as int;
                    &&& n <= buf@.len() && (buf@.len() > 0 ==> n > 0)
                    &&& final(w).faults == old(w).faults
                    &&& final(w).files == old(w).files.insert(self.inode(), fs_write(old(w).files[self.inode()], pos, buf@.subrange(0, n as int)))
                    &&& final(w).cursor[self.id()] == pos + n
                    &&& final(w).trace == old(w).trace.push(Event::Write(self.inode(), pos, n as int))
                },
                Err(_) => final(w).faults == old(w).faults + 1 && final(w).files == old(w).files && final(w).cursor == old(w).cursor && final(w).trace == old(w).trace,
            },
    { unimplemented!() }

    /// fchmod
    #[verifier::external_body]
    pub fn set_permissions(&self, perm: Permissions, Tracked(w): Tracked<&mut World>) -> (r: std::result::Result<(), io::Error>)
        ensures fr_files(*old(w), *final(w)),
            match r {
                Ok(_) => {
                    let i = self.inode();
                    &&& final(w).faults == old(w).faults
                    &&& final(w).files == old(w).files.insert(i, FileState { mode: mode_perm(perm.spec_mode()), ..old(w).files[i] })
                    &&& final(w).trace == old(w).trace.push(Event::Chmod(i, mode_perm(perm.spec_mode())))
                },
                Err(_) => final(w).faults == old(w).faults + 1 && final(w).files == old(w).files && final(w).trace == old(w).trace,
            },
    { unimplemented!() }

    /// futimens
    #[verifier::external_body]
    pub fn set_times(&self, times: FileTimes, Tracked(w): Tracked<&mut World>) -> (r: std::result::Result<(), io::Error>)
        ensures fr_files(*old(w), *final(w)),
            match r {
                Ok(_) => {
                    let i = self.inode(); let f = old(w).files[i];
                    let na = if times.a@ is Some { times.a@->Some_0 } else { f.atime };
                    let nm = if times.m@ is Some { times.m@->Some_0 } else { f.mtime };
                    &&& final(w).faults == old(w).faults
                    &&& final(w).files == old(w).files.insert(i, FileState { atime: na, mtime: nm, ..f })
                    &&& final(w).trace == old(w).trace.push(Event::Utimens(i, na, nm))
                },
                Err(_) => final(w).faults == old(w).faults + 1 && final(w).files == old(w).files && final(w).trace == old(w).trace,
            },
    { unimplemented!() }
}

/// K-fchown.  A failure is *tolerated* (documented as a warning), so it bumps `tolerated`, not `faults`.
/// Success clears set-user-ID/set-group-ID as Linux does (chown_mode keeps every other bit).
#[verifier::external_body]
pub fn fchown(fd: &File, uid: Option<u32>, gid: Option<u32>, Tracked(w): Tracked<&mut World>) -> (r: std::result::Result<(), io::Error>)
    ensures fr_data_t(*old(w), *final(w)), final(w).eintr_left == old(w).eintr_left, final(w).cursor == old(w).cursor, final(w).faults == old(w).faults,
        match r {
            Ok(_) => {
                let i = fd.inode(); let f = old(w).files[i];
                let nu = if uid is Some { uid->Some_0 } else { f.uid };
                let ng = if gid is Some { gid->Some_0 } else { f.gid };
                &&& final(w).tolerated == old(w).tolerated
                &&& final(w).files == old(w).files.insert(i, FileState { uid: nu, gid: ng, mode: chown_mode(f.mode), ..f })
                &&& final(w).trace == old(w).trace.push(Event::Chown(i, nu, ng))
            },
            Err(_) => final(w).tolerated == old(w).tolerated + 1 && final(w).files == old(w).files && final(w).trace == old(w).trace,
        },
{ unimplemented!() }

// ---------------------------------------------------------------- rustix
/// K-pread
#[verifier::external_body]
pub fn pread(fd: &File, buf: &mut [u8], off: u64, Tracked(w): Tracked<&mut World>) -> (r: std::result::Result<usize, Errno>)
    ensures fr_ro(*old(w), *final(w)), final(buf)@.len() == old(buf)@.len(),
        match r {
            Ok(n) => {
                let src = old(w).files[fd.inode()].bytes;
                &&& final(w).faults == old(w).faults
                &&& n <= old(buf)@.len()
                &&& (n == 0 <==> (old(buf)@.len() == 0 || off >= src.len()))
                &&& (n > 0 ==> off + n <= src.len())
                &&& final(buf)@.subrange(0, n as int) == src.subrange(off as int, off + n)
            },
            Err(_) => final(w).faults == old(w).faults + 1,
        },
{ unimplemented!() }

/// K-pwrite
#[verifier::external_body]
pub fn pwrite(fd: &File, buf: &[u8], off: u64, Tracked(w): Tracked<&mut World>) -> (r: std::result::Result<usize, Errno>)
    ensures fr_files(*old(w), *final(w)),
        match r {
            Ok(n) => {
                &&& final(w).faults == old(w).faults
                &&& n <= buf@.len() && (n == 0 ==> buf@.len() == 0)
                &&& final(w).files == old(w).files.insert(fd.inode(), fs_write(old(w).files[fd.inode()], off as int, buf@.subrange(0, n as int)))
                &&& final(w).trace == old(w).trace.push(Event::Write(fd.inode(), off as int, n as int))
            },
            Err(_) => final(w).faults == old(w).faults + 1 && final(w).files == old(w).files && final(w).trace == old(w).trace,
        },
{ unimplemented!() }

/// errnos by which copy_file_range says "not available here" (an answer, not a failed step)
pub open spec fn cfr_unsupported(e: Errno) -> bool { e == Errno::NOSYS || e == Errno::PERM || e == Errno::XDEV }

/// effect of a successful copy_file_range of `n` of `len` requested bytes from position `pin` to `pout`
pub open spec fn cfr_ok(o: World, f: World, infd: &File, outfd: &File, pin: int, pout: int, in_cur: bool, out_cur: bool, len: int, n: int) -> bool {
    let src = o.files[infd.inode()].bytes;
    &&& f.faults == o.faults
    &&& 0 <= n <= len
    &&& (n == 0 <==> (len == 0 || pin >= src.len()))
    &&& (n > 0 ==> pin + n <= src.len())
    &&& (in_cur ==> f.cursor[infd.id()] == pin + n)
    &&& (out_cur ==> f.cursor[outfd.id()] == pout + n)
    &&& (infd.inode() != outfd.inode() ==>
            f.files == o.files.insert(outfd.inode(), fs_write(o.files[outfd.inode()], pout, sub(src, pin, n))))
    &&& (forall|j: Inode| j != outfd.inode() ==> f.files[j] == o.files[j])
    &&& f.trace == o.trace.push(Event::Write(outfd.inode(), pout, n))
}
/// a failed copy_file_range changes nothing (but the fault count, unless the answer is "unsupported")
pub open spec fn cfr_err(o: World, f: World, e: Errno) -> bool {
    &&& f.faults == o.faults + (if cfr_unsupported(e) { 0nat } else { 1 })
    &&& f.files == o.files && f.trace == o.trace && f.cursor == o.cursor
}

/// K-cfr: copy_file_range(2).  Any errno is possible; a successful call may move any 1..=len bytes
/// (0 only for len == 0 or at/after the end of the source).
#[verifier::external_body]
pub fn copy_file_range(infd: &File, in_off: Option<&mut u64>, outfd: &File, out_off: Option<&mut u64>, len: usize, Tracked(w): Tracked<&mut World>)
    -> (r: std::result::Result<usize, Errno>)
    ensures fr_data(*old(w), *final(w)), final(w).eintr_left == old(w).eintr_left,
        forall|i: FdId| i != infd.id() && i != outfd.id() ==> final(w).cursor[i] == old(w).cursor[i],
        in_off is Some ==> final(w).cursor[infd.id()] == old(w).cursor[infd.id()],
        out_off is Some ==> final(w).cursor[outfd.id()] == old(w).cursor[outfd.id()],
        in_off is Some && out_off is Some ==> final(w).cursor == old(w).cursor,
        match r {
            Ok(n) => {
                let pin = match in_off { Some(p) => *p as int, None => old(w).cursor[infd.id()] as int };
                let pout = match out_off { Some(p) => *p as int, None => old(w).cursor[outfd.id()] as int };
                &&& cfr_ok(*old(w), *final(w), infd, outfd, pin, pout, in_off is None, out_off is None, len as int, n as int)
                &&& (match in_off { Some(p) => *final(p) == pin + n, None => true })
                &&& (match out_off { Some(p) => *final(p) == pout + n, None => true })
            },
            Err(e) => {
                &&& cfr_err(*old(w), *final(w), e)
                &&& (match in_off { Some(p) => *final(p) == *p, None => true })
                &&& (match out_off { Some(p) => *final(p) == *p, None => true })
            },
        },
{ unimplemented!() }

/// K-seek: lseek(2) with SEEK_SET / SEEK_DATA / SEEK_HOLE over the per-inode data set.
/// ENXIO is an answer, not a fault.
#[verifier::external_body]
pub fn seek(fd: &File, from: SeekFrom, Tracked(w): Tracked<&mut World>) -> (r: std::result::Result<u64, Errno>)
    ensures fr_data(*old(w), *final(w)), final(w).eintr_left == old(w).eintr_left, final(w).files == old(w).files, final(w).trace == old(w).trace,
        final(w).faults == old(w).faults + (if r is Err && r->Err_0 != Errno::NXIO { 1nat } else { 0 }),
        forall|i: FdId| i != fd.id() ==> final(w).cursor[i] == old(w).cursor[i],
        r is Ok ==> final(w).cursor[fd.id()] == r->Ok_0,
        r is Err ==> final(w).cursor[fd.id()] == old(w).cursor[fd.id()],
        from is Start ==> !(r is Err && r->Err_0 == Errno::NXIO),
        ({
            let len = old(w).files[fd.inode()].bytes.len() as int;
            let fsm = old(w).files; let ino = fd.inode();
            match from {
                SeekFrom::Start(p) => r is Ok ==> r->Ok_0 == p,
                SeekFrom::Data(p) => match r {
                    Ok(d) => p <= d < len && fsm[ino].data.contains(d as int) && (forall|x: int| p <= x < d ==> !fsm[ino].data.contains(x)),
                    Err(e) => e == Errno::NXIO ==> (forall|x: int| p <= x < len ==> !fsm[ino].data.contains(x)),
                },
                SeekFrom::Hole(p) => match r {
                    Ok(h) => p <= h <= len && p < len && (forall|x: int| p <= x < h ==> fsm[ino].data.contains(x)) && (h < len ==> !fsm[ino].data.contains(h as int)),
                    Err(e) => e == Errno::NXIO ==> p >= len,
                },
            }
        }),
{ unimplemented!() }

/// K-ftruncate
#[verifier::external_body]
pub fn ftruncate(fd: &File, len: u64, Tracked(w): Tracked<&mut World>) -> (r: std::result::Result<(), Errno>)
    ensures fr_files(*old(w), *final(w)),
        match r {
            Ok(_) => {
                &&& final(w).faults == old(w).faults
                &&& final(w).files == old(w).files.insert(fd.inode(), fs_truncate(old(w).files[fd.inode()], len as nat))
                &&& final(w).trace == old(w).trace.push(Event::Ftruncate(fd.inode(), len as nat))
            },
            Err(_) => final(w).faults == old(w).faults + 1 && final(w).files == old(w).files && final(w).trace == old(w).trace,
        },
{ unimplemented!() }

/// K-fsync
#[verifier::external_body]
pub fn fsync(fd: &File, Tracked(w): Tracked<&mut World>) -> (r: std::result::Result<(), Errno>)
    ensures fr_files(*old(w), *final(w)), final(w).files == old(w).files,
        match r {
            Ok(_) => final(w).faults == old(w).faults && final(w).trace == old(w).trace.push(Event::Fsync(fd.inode())),
            Err(_) => final(w).faults == old(w).faults + 1 && final(w).trace == old(w).trace,
        },
{ unimplemented!() }
