// ---- prelude/root_10_world.rs: ghost world (DESIGN.md §3.4) ----
pub use std::cmp;
pub use std::sync::Arc;
pub use std::ops::Range;
pub use vstd::std_specs::cmp::OrdSpec;

#[verifier::allow(undeclared_external_trait)]
pub assume_specification<T: std::cmp::Ord + std::marker::Destruct> [std::cmp::min](a: T, b: T) -> (r: T)
    ensures T::obeys_cmp_spec() ==> r == (if a.cmp_spec(&b) is Greater { b } else { a });

#[verifier::external_body]
pub fn opaque_string() -> (r: String) { unimplemented!() }
#[verifier::external_body]
pub fn diverge() -> ! { loop {} }

global size_of usize == 8;

pub type Inode = int;
pub type FdId = int;
pub type PathKey = int;

pub struct Time { pub sec: int, pub nsec: int }
pub struct KExt { pub logical: int, pub length: int, pub flags: u32 }

/// State of one inode.
pub struct FileState {
    pub bytes: Seq<u8>,                   // content; length = bytes.len()
    pub data: ISet<int>,                   // offsets that SEEK_DATA regards as data (source) / that were ever written (destination)
    pub kext: Seq<KExt>,                  // extent list FIEMAP reports
    pub fiemap_ok: bool,                  // the filesystem answers FS_IOC_FIEMAP for this inode (false: EOPNOTSUPP)
    pub blocks: u64,                      // st_blocks
    pub mode: u32,                        // st_mode & 0o7777
    pub atime: Time,
    pub mtime: Time,
    pub uid: u32,
    pub gid: u32,
    pub xattrs: Map<Seq<u8>, Seq<u8>>,
}

#[derive(PartialEq, Eq, Clone, Copy, Structural)]
pub enum NodeKind { File, Dir, Symlink, Socket, Fifo, Char, Block, Other }

/// One directory entry as `lstat` sees it (`kind`), with what `open`/`stat` reach through it (`inode`).
pub struct Node {
    pub kind: NodeKind,
    pub entry: int,            // identity of the directory entry itself (parent directory + name): two spellings of one entry share it
    pub inode: Inode,          // inode reached by following the entry (open/stat); for a dangling link: none (see `reach`)
    pub reach: bool,           // following the entry reaches an existing object (false: dangling link)
    pub tkind: NodeKind,       // kind of the object reached by following links
    pub link: PathKey,         // link text (Symlink only)
    pub perm: u32,             // st_mode & 0o7777 of the entry itself
    pub rdev: u64,             // st_rdev (device number of a device node)
    pub size: u64,             // st_size as lstat reports it
}

pub enum Op { Copy(PathKey, PathKey), Link(PathKey, PathKey), Special(PathKey, PathKey) }

pub enum Event {
    Open(PathKey),                          // read-only open
    CreateTrunc(PathKey, Inode),            // open(O_WRONLY|O_CREAT|O_TRUNC)
    Rename(PathKey, PathKey),
    Ftruncate(Inode, nat),
    Write(Inode, int, int),                 // data written to inode at [off, off+n)
    Clone(Inode, Inode, bool),              // FICLONE src -> dst, success
    Chmod(Inode, u32),
    Utimens(Inode, Time, Time),
    Chown(Inode, u32, u32),
    SetXattr(Inode),
    Fsync(Inode),
    Mknod(PathKey, NodeKind, u32, u64),     // path, type, perm bits requested, device number
    Remove(PathKey),
    Symlink(PathKey, PathKey),              // link text, at path
    Mkdir(PathKey),
    SendSize(u64),
    SendCopied(u64),
    SendError,
    DeliverSize(u64),                       // put on the ChannelUpdater's channel
    DeliverCopied(u64),
    DeliverError,
    Queue(Op),
    Job(Inode, Inode, int, int),            // pool job: src inode, dst inode, off, bytes
    PoolJoin,                               // the block pool was waited for: every job queued before has run to completion
}

pub struct World {
    pub files: Map<Inode, FileState>,
    pub cursor: Map<FdId, nat>,
    pub paths: Map<PathKey, Node>,
    pub trace: Seq<Event>,
    pub faults: nat,            // failed *required* system calls so far
    pub tolerated: nat,         // failed xattr / ownership calls so far
    pub errors_sent: nat,       // StatusUpdate::Error accepted by the updater so far
    pub announced: nat,         // sum of StatusUpdate::Size accepted
    pub reported: nat,          // sum of StatusUpdate::Copied accepted
    pub errno: int,             // errno of the last failed libc call
    pub eintr_left: nat,        // A-eintr: how many more times a read may still be interrupted (finite)
    pub eexist: nat,            // node-creating calls that failed because the name was already taken (EEXIST)
}

// ---------------------------------------------------------------- frames
/// nothing but `files`, `trace`, `faults` may differ
pub open spec fn fr_files(a: World, b: World) -> bool {
    a.eexist == b.eexist && a.errno == b.errno && a.eintr_left == b.eintr_left && a.cursor == b.cursor && a.paths == b.paths && a.tolerated == b.tolerated
    && a.errors_sent == b.errors_sent && a.announced == b.announced && a.reported == b.reported
}
/// nothing but `files`, `cursor`, `trace`, `faults`, `errno` may differ (data path)
pub open spec fn fr_data(a: World, b: World) -> bool {
    a.eexist == b.eexist && a.errno == b.errno && a.paths == b.paths && a.tolerated == b.tolerated
    && a.errors_sent == b.errors_sent && a.announced == b.announced && a.reported == b.reported
}
/// like fr_data, but `tolerated` may change too (fchown: its failure is a tolerated one)
pub open spec fn fr_data_t(a: World, b: World) -> bool {
    a.eexist == b.eexist && a.errno == b.errno && a.paths == b.paths
    && a.errors_sent == b.errors_sent && a.announced == b.announced && a.reported == b.reported
}
/// nothing but `faults` (and errno) may differ
pub open spec fn fr_ro(a: World, b: World) -> bool {
    a.eexist == b.eexist && a.errno == b.errno && a.eintr_left == b.eintr_left && a.files == b.files && a.cursor == b.cursor && a.paths == b.paths && a.trace == b.trace && a.tolerated == b.tolerated
    && a.errors_sent == b.errors_sent && a.announced == b.announced && a.reported == b.reported
}
/// like fr_data but errno may change too (libc calls)
pub open spec fn fr_libc(a: World, b: World) -> bool {
    a.eexist == b.eexist && a.paths == b.paths && a.tolerated == b.tolerated && a.eintr_left == b.eintr_left
    && a.errors_sent == b.errors_sent && a.announced == b.announced && a.reported == b.reported
}
/// the updater counters, the channel events and `faults` only (a refused send is a fault: each user states what happens to `faults`)
pub open spec fn fr_chan(a: World, b: World) -> bool {
    a.eexist == b.eexist && a.errno == b.errno && a.eintr_left == b.eintr_left && a.files == b.files && a.cursor == b.cursor && a.paths == b.paths && a.tolerated == b.tolerated
}
/// every inode other than `i` is untouched, and no inode disappears or appears
pub open spec fn others_same(a: Map<Inode, FileState>, b: Map<Inode, FileState>, i: Inode) -> bool {
    a.dom() == b.dom() && forall|j: Inode| j != i && a.contains_key(j) ==> #[trigger] b[j] == a[j]
}
/// `t1` extends `t0`
pub open spec fn tr_ext(t0: Seq<Event>, t1: Seq<Event>) -> bool {
    t0.len() <= t1.len() && forall|k: int| 0 <= k < t0.len() ==> #[trigger] t1[k] == t0[k]
}
pub open spec fn is_write_on(e: Event, i: Inode) -> bool {
    e is Write && e->Write_0 == i
}
/// `t1` extends `t0` by data writes on inode `i` only
pub open spec fn ext_writes(t0: Seq<Event>, t1: Seq<Event>, i: Inode) -> bool {
    tr_ext(t0, t1) && forall|k: int| t0.len() <= k < t1.len() ==> is_write_on(#[trigger] t1[k], i)
}

// ---------------------------------------------------------------- byte algebra
pub open spec fn sub(s: Seq<u8>, a: int, n: int) -> Seq<u8> {
    if n <= 0 { Seq::<u8>::empty() } else { s.subrange(a, a + n) }
}
/// `out` with `data` stored at `off` (zero-filled if that extends the file)
pub open spec fn patched(out: Seq<u8>, off: int, data: Seq<u8>) -> Seq<u8> {
    if data.len() == 0 { out } else {
        Seq::new(if out.len() > off + data.len() { out.len() } else { (off + data.len()) as nat },
            |i: int| if off <= i < off + data.len() { data[i - off] } else if i < out.len() { out[i] } else { 0u8 })
    }
}
pub open spec fn span(off: int, n: int) -> ISet<int> { ISet::new(|x: int| off <= x < off + n) }

/// inode state after `n` bytes `data` were written at `off`
pub open spec fn fs_write(f: FileState, off: int, data: Seq<u8>) -> FileState {
    FileState { bytes: patched(f.bytes, off, data), data: f.data.union(span(off, data.len() as int)), ..f }
}
/// inode state after ftruncate(len)
pub open spec fn fs_truncate(f: FileState, len: nat) -> FileState {
    FileState {
        bytes: Seq::new(len, |i: int| if i < f.bytes.len() { f.bytes[i] } else { 0u8 }),
        data: f.data.intersect(span(0, len as int)),
        ..f
    }
}
/// holes read as zeros
pub open spec fn holes_zero(f: FileState) -> bool {
    forall|x: int| 0 <= x < f.bytes.len() && !f.data.contains(x) ==> #[trigger] f.bytes[x] == 0u8
}
pub open spec fn is_data_m(fs: Map<Inode, FileState>, i: Inode, x: int) -> bool { fs[i].data.contains(x) }
