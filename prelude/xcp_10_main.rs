// ---- prelude/xcp_10_main.rs: stand-ins for src/main.rs (TRUSTED) ----
use super::*;
use super::libxcp::{Result, XcpError, AnyError, Reflink, Backup, target_base_of};

/// mirror of the fields of `Opts` (src/options.rs, a clap derive struct) that main's validation reads
pub struct Opts {
    pub recursive: bool,
    pub no_clobber: bool,
    pub force: bool,
    pub glob: bool,
    pub no_target_directory: bool,
    pub target_directory: Option<String>,
    pub reflink: Reflink,
    pub paths: Vec<String>,
}

pub assume_specification<T> [<[T]>::split_last] (s: &[T]) -> (r: std::option::Option<(&T, &[T])>)
    ensures match r { None => s@.len() == 0, Some((l, rest)) => s@.len() > 0 && *l == s@[s@.len() - 1] && rest@ == s@.take(s@.len() - 1) };

/// expand_sources/expand_globs are iterator-adapter code over the glob crate: outside Verus.  Assumed read-only.
#[verifier::external_body]
pub fn expand_sources(source_list: &[String], opts: &Opts, Tracked(w): Tracked<&mut World>) -> (r: Result<Vec<PathBuf>>)
    ensures fr_ro(*old(w), *final(w)), final(w).faults == old(w).faults + (if r is Err { 1nat } else { 0 }),
{ unimplemented!() }
