// ---- prelude/xcp_10_main.rs: stand-ins for src/main.rs (TRUSTED) ----
use super::*;
use super::libxcp::{Result, XcpError, AnyError, Reflink, Backup, target_base_of};

pub use super::libxcp::Config;
pub use super::libfs::is_same_file;
/// `Opts` itself is extracted verbatim from src/options.rs (field attributes dropped); these are the types its fields use
#[derive(Clone, Copy)]
pub enum Drivers { ParFile, ParBlock }
pub mod num_cpus {
    #[allow(unused_imports)] use super::*;
    #[verifier::external_body]
    pub fn get() -> (r: usize) ensures r >= 1 { unimplemented!() }
}
impl vstd::std_specs::convert::FromSpecImpl<&Opts> for Config {
    open spec fn obeys_from_spec() -> bool { false }   // workers depends on num_cpus::get(): stated field by field in the contract instead
    uninterp spec fn from_spec(o: &Opts) -> Config;
}

pub assume_specification<T> [<[T]>::split_last] (s: &[T]) -> (r: std::option::Option<(&T, &[T])>)
    ensures match r { None => s@.len() == 0, Some((l, rest)) => s@.len() > 0 && *l == s@[s@.len() - 1] && rest@ == s@.take(s@.len() - 1) };

/// expand_sources/expand_globs are iterator-adapter code over the glob crate: outside Verus.  Assumed read-only.
#[verifier::external_body]
pub fn expand_sources(source_list: &[String], opts: &Opts, Tracked(w): Tracked<&mut World>) -> (r: Result<Vec<PathBuf>>)
    ensures fr_ro(*old(w), *final(w)), final(w).faults == old(w).faults + (if r is Err { 1nat } else { 0 }),
{ unimplemented!() }

// ---- the run phase of main(): driver loading, progress bar, the spawned driver call (R14).  TRUSTED stand-ins.
pub use super::libxcp::{StatusUpdate, StatusUpdater, ChannelUpdater, JoinHandle, cbc};
pub trait CopyDriver { }
#[verifier::external_body]
pub fn load_driver(driver: Drivers, config: &Arc<Config>) -> (r: Result<Box<dyn CopyDriver>>) { unimplemented!() }
/// the driver runs on its own thread; what main is checked for is that its result is not dropped
#[verifier::external_body]
pub fn spawn__copy(driver: Box<dyn CopyDriver>, sources: Vec<PathBuf>, dest: &PathBuf, stats: Arc<dyn StatusUpdater>, Tracked(w): Tracked<&mut World>) -> (r: JoinHandle<Result<()>>)
    ensures *final(w) == *old(w),
{ unimplemented!() }
pub trait ProgressBar {
    fn inc_size(&self, size: u64);
    fn inc(&self, size: u64);
    fn end(&self);
}
pub mod progress {
    use super::*;
    #[verifier::external_body]
    pub fn create_bar(opts: &Opts, size: u64) -> (r: Result<Box<dyn ProgressBar>>) { unimplemented!() }
}
impl ChannelUpdater {
    /// identity of the updater's own channel
    pub uninterp spec fn chan(&self) -> int;
    #[verifier::external_body]
    pub fn new(config: &Arc<Config>) -> (r: ChannelUpdater) ensures r.chan() >= 0 { unimplemented!() }
    #[verifier::external_body]
    pub fn rx_channel(&self) -> (r: cbc::Receiver<StatusUpdate>) ensures r.chan() == self.chan() { unimplemented!() }
}
impl StatusUpdater for ChannelUpdater {
    open spec fn sink(&self) -> int { self.chan() }
    #[verifier::external_body]
    fn send(&self, update: StatusUpdate, Tracked(w): Tracked<&mut World>) -> (r: Result<()>) { unimplemented!() }
}
/// libxcp::feedback::NoopUpdater: accepts every update and delivers it nowhere
pub struct NoopUpdater;
impl StatusUpdater for NoopUpdater {
    open spec fn sink(&self) -> int { -1 }
    #[verifier::external_body]
    fn send(&self, update: StatusUpdate, Tracked(w): Tracked<&mut World>) -> (r: Result<()>) { unimplemented!() }
}
