// ---- prelude/xcp_10_main.rs: stand-ins for src/main.rs (TRUSTED) ----
use super::*;
use super::libxcp::{Result, XcpError, AnyError, Reflink, Backup, target_base_of};

pub use super::libxcp::Config;
/// `Opts` itself is extracted verbatim from src/options.rs (field attributes dropped); these are the types its fields use
pub enum Drivers { ParFile, ParBlock }
pub mod num_cpus {
    #[allow(unused_imports)] use super::*;
    #[verifier::external_body]
    pub fn get() -> (r: usize) ensures r >= 1 { unimplemented!() }
}
impl vstd::std_specs::convert::FromSpecImpl<&Opts> for Config {
    open spec fn obeys_from_spec() -> bool { false }   // workers depends on num_cpus::get(): stated field by field in the contract instead
    uninterp spec fn from_spec(o: &Opts) -> Config;
}

pub assume_specification<T> [<[T]>::split_last] (s: &[T]) -> (r: std::option::Option<(&T, &[T])>)
    ensures match r { None => s@.len() == 0, Some((l, rest)) => s@.len() > 0 && *l == s@[s@.len() - 1] && rest@ == s@.take(s@.len() - 1) };

/// expand_sources/expand_globs are iterator-adapter code over the glob crate: outside Verus.  Assumed read-only.
#[verifier::external_body]
pub fn expand_sources(source_list: &[String], opts: &Opts, Tracked(w): Tracked<&mut World>) -> (r: Result<Vec<PathBuf>>)
    ensures fr_ro(*old(w), *final(w)), final(w).faults == old(w).faults + (if r is Err { 1nat } else { 0 }),
{ unimplemented!() }
