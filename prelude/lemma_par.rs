// ---- prelude/lemma_par.rs: L-par (DESIGN.md §5 C01), proved.  Composition of block jobs into whole-file equality.
// A-pool: the pool runs every queued job exactly once; the jobs' effects on the destination compose sequentially in *some* order.
// The lemma holds for every order, so no assumption on scheduling is needed beyond that.

pub struct BJob { pub off: int, pub bytes: int }

/// effect of one finished job (its postcondition in queue_file_range__job): the block, clipped to the source, is copied in place
pub open spec fn job_effect(out: Seq<u8>, src: Seq<u8>, j: BJob) -> Seq<u8> {
    patched(out, j.off, sub(src, j.off, libxcp::clip(j.off, j.bytes, src.len() as int)))
}
pub open spec fn apply_jobs(out: Seq<u8>, src: Seq<u8>, jobs: Seq<BJob>) -> Seq<u8>
    decreases jobs.len()
{
    if jobs.len() == 0 { out } else { job_effect(apply_jobs(out, src, jobs.drop_last()), src, jobs.last()) }
}
pub open spec fn bjob_covers(jobs: Seq<BJob>, b: int) -> bool {
    exists|k: int| 0 <= k < jobs.len() && (#[trigger] jobs[k]).off <= b < jobs[k].off + jobs[k].bytes
}
pub open spec fn bjobs_wf(jobs: Seq<BJob>) -> bool {
    forall|k: int| 0 <= k < jobs.len() ==> (#[trigger] jobs[k]).off >= 0 && jobs[k].bytes > 0
}

proof fn lemma_apply_jobs(out: Seq<u8>, src: Seq<u8>, jobs: Seq<BJob>)
    requires out.len() == src.len(), bjobs_wf(jobs),
    ensures apply_jobs(out, src, jobs).len() == src.len(),
        forall|b: int| 0 <= b < src.len() ==> #[trigger] apply_jobs(out, src, jobs)[b] == (if bjob_covers(jobs, b) { src[b] } else { out[b] }),
    decreases jobs.len()
{
    if jobs.len() == 0 {
    } else {
        let rest = jobs.drop_last(); let j = jobs.last();
        assert(bjobs_wf(rest)) by { assert forall|k: int| 0 <= k < rest.len() implies (#[trigger] rest[k]).off >= 0 && rest[k].bytes > 0 by { assert(rest[k] == jobs[k]); } }
        lemma_apply_jobs(out, src, rest);
        let mid = apply_jobs(out, src, rest);
        let n = libxcp::clip(j.off, j.bytes, src.len() as int);
        assert(jobs[jobs.len() - 1] == j);
        assert forall|b: int| 0 <= b < src.len() implies #[trigger] apply_jobs(out, src, jobs)[b] == (if bjob_covers(jobs, b) { src[b] } else { out[b] }) by {
            if j.off <= b < j.off + j.bytes {
                assert(bjob_covers(jobs, b));
            } else if bjob_covers(rest, b) {
                let k = choose|k: int| 0 <= k < rest.len() && (#[trigger] rest[k]).off <= b < rest[k].off + rest[k].bytes;
                assert(jobs[k] == rest[k]);
                assert(bjob_covers(jobs, b));
            } else if bjob_covers(jobs, b) {
                let k = choose|k: int| 0 <= k < jobs.len() && (#[trigger] jobs[k]).off <= b < jobs[k].off + jobs[k].bytes;
                if k < rest.len() { assert(rest[k] == jobs[k]); assert(bjob_covers(rest, b)); }
            }
        }
    }
}

/// L-par: a zero-filled, pre-sized destination + jobs covering every non-zero byte of the source + each job's postcondition ==> destination == source
pub proof fn lemma_par(src: Seq<u8>, jobs: Seq<BJob>)
    requires bjobs_wf(jobs),
        forall|b: int| 0 <= b < src.len() && #[trigger] src[b] != 0u8 ==> bjob_covers(jobs, b),
    ensures apply_jobs(libxcp::zeros(src.len()), src, jobs) =~= src,
{
    lemma_apply_jobs(libxcp::zeros(src.len()), src, jobs);
}
