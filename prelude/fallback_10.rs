// ---- prelude/fallback_10.rs: the non-Linux backend (libfs/src/fallback.rs) lives in its own module: same function names as linux.rs ----
use super::*;
use super::libfs::{copy_bytes_uspace, copy_range_uspace, Error, Result, Extent};
