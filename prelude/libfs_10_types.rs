// ---- prelude/libfs_10_types.rs: type mirrors of libfs (hand-written from libfs/src/{errors,lib}.rs; thiserror's
// `#[from]` conversions are spelled out) ----
use super::*;

pub enum Error {
    InvalidSource(&'static str),
    InvalidPath(PathBuf),
    IOError(io::Error),
    OSError(Errno),
    UnsupportedOperation,
}
impl From<io::Error> for Error { fn from(e: io::Error) -> (r: Error) { Error::IOError(e) } }
impl vstd::std_specs::convert::FromSpecImpl<io::Error> for Error {
    open spec fn obeys_from_spec() -> bool { true }
    open spec fn from_spec(e: io::Error) -> Error { Error::IOError(e) }
}
impl From<Errno> for Error { fn from(e: Errno) -> (r: Error) { Error::OSError(e) } }
impl vstd::std_specs::convert::FromSpecImpl<Errno> for Error {
    open spec fn obeys_from_spec() -> bool { true }
    open spec fn from_spec(e: Errno) -> Error { Error::OSError(e) }
}
pub type Result<T, E = Error> = std::result::Result<T, E>;

pub const XATTR_SUPPORTED: bool = true;

// ---- spec vocabulary for extents (C19, C11)
pub open spec fn ext_wf1(e: Extent) -> bool { e.start <= e.end && e.end < u64::MAX }
pub open spec fn ext_wf(s: Seq<Extent>) -> bool { forall|i: int| 0 <= i < s.len() ==> ext_wf1(#[trigger] s[i]) }
pub open spec fn inx(e: Extent, b: int) -> bool { e.start <= b < e.end }
pub open spec fn covered(s: Seq<Extent>, b: int) -> bool { exists|i: int| 0 <= i < s.len() && inx(#[trigger] s[i], b) }
pub open spec fn optseq(p: Option<Extent>) -> Seq<Extent> { match p { Some(e) => seq![e], None => seq![] } }

// ---- libfs::FileType (mirror of the enum in libfs/src/lib.rs)
pub enum FileType { File, Dir, Symlink, Socket, Fifo, Char, Block, Other }
impl FileType {
    pub open spec fn kind(&self) -> NodeKind {
        match self {
            FileType::File => NodeKind::File, FileType::Dir => NodeKind::Dir, FileType::Symlink => NodeKind::Symlink,
            FileType::Socket => NodeKind::Socket, FileType::Fifo => NodeKind::Fifo, FileType::Char => NodeKind::Char,
            FileType::Block => NodeKind::Block, FileType::Other => NodeKind::Other,
        }
    }
}
// the conversions' *bodies* are extracted from lib.rs and verified against these spec functions
impl vstd::std_specs::convert::FromSpecImpl<fs::FileType> for FileType {
    open spec fn obeys_from_spec() -> bool { true }
    open spec fn from_spec(ft: fs::FileType) -> FileType {
        match ft.kind() {
            NodeKind::File => FileType::File, NodeKind::Dir => FileType::Dir, NodeKind::Symlink => FileType::Symlink,
            NodeKind::Socket => FileType::Socket, NodeKind::Fifo => FileType::Fifo, NodeKind::Char => FileType::Char,
            NodeKind::Block => FileType::Block, NodeKind::Other => FileType::Other,
        }
    }
}
impl vstd::std_specs::convert::FromSpecImpl<Extent> for Range<u64> {
    open spec fn obeys_from_spec() -> bool { true }
    open spec fn from_spec(e: Extent) -> Range<u64> { Range { start: e.start, end: e.end } }
}
pub open spec fn ends_le(s: Seq<Extent>, b: int) -> bool { forall|i: int| 0 <= i < s.len() ==> (#[trigger] s[i]).end <= b }
/// ordered and pairwise disjoint
pub open spec fn ext_sorted(s: Seq<Extent>) -> bool { forall|i: int, j: int| 0 <= i < j < s.len() ==> (#[trigger] s[i]).end <= (#[trigger] s[j]).start }
pub open spec fn is_start(s: Seq<Extent>, v: int) -> bool { exists|i: int| 0 <= i < s.len() && (#[trigger] s[i]).start == v }
pub open spec fn is_end(s: Seq<Extent>, v: int) -> bool { exists|i: int| 0 <= i < s.len() && (#[trigger] s[i]).end == v }
/// `b` is the single byte between two consecutive input extents that the merge rule deems adjacent
pub open spec fn in_gap(s: Seq<Extent>, b: int) -> bool { exists|i: int| 0 <= i < s.len() - 1 && (#[trigger] s[i]).end == b && s[i + 1].start == b + 1 }
pub proof fn lemma_bounds_push(pre: Seq<Extent>, e: Extent, v: int)
    ensures is_start(pre, v) ==> is_start(pre.push(e), v), is_end(pre, v) ==> is_end(pre.push(e), v),
        is_start(pre.push(e), e.start as int), is_end(pre.push(e), e.end as int),
{
    let post = pre.push(e);
    if is_start(pre, v) { let i = choose|i: int| 0 <= i < pre.len() && (#[trigger] pre[i]).start == v; assert(post[i].start == v); }
    if is_end(pre, v) { let i = choose|i: int| 0 <= i < pre.len() && (#[trigger] pre[i]).end == v; assert(post[i].end == v); }
    assert(post[pre.len() as int] == e);
}
pub proof fn lemma_gap_push(pre: Seq<Extent>, e: Extent, b: int)
    ensures in_gap(pre, b) ==> in_gap(pre.push(e), b), covered(pre, b) ==> covered(pre.push(e), b),
{
    let post = pre.push(e);
    if in_gap(pre, b) { let i = choose|i: int| 0 <= i < pre.len() - 1 && (#[trigger] pre[i]).end == b && pre[i + 1].start == b + 1; assert(post[i].end == b && post[i + 1].start == b + 1); }
    if covered(pre, b) { let i = choose|i: int| 0 <= i < pre.len() && inx(#[trigger] pre[i], b); assert(inx(post[i], b)); }
}

/// one iteration of merge_extents, as a relation between the loop state before and after
pub open spec fn merge_step(om: Seq<Extent>, op: Option<Extent>, e: Extent, m: Seq<Extent>, p: Option<Extent>) -> bool {
    match op {
        None => m == om && p == Some(e),
        Some(q) => (e.start == q.end + 1 && m == om && p is Some && p->Some_0.start == q.start && p->Some_0.end == e.end)
                || (e.start != q.end + 1 && m == om.push(q) && p == Some(e)),
    }
}
pub proof fn lemma_merge_step_bounds(pre: Seq<Extent>, e: Extent, om: Seq<Extent>, op: Option<Extent>, m: Seq<Extent>, p: Option<Extent>)
    requires merge_step(om, op, e, m, p),
        forall|k: int| 0 <= k < (om + optseq(op)).len() ==> is_start(pre, (#[trigger] (om + optseq(op))[k]).start as int) && is_end(pre, (om + optseq(op))[k].end as int),
    ensures
        forall|k: int| 0 <= k < (m + optseq(p)).len() ==> is_start(pre.push(e), (#[trigger] (m + optseq(p))[k]).start as int) && is_end(pre.push(e), (m + optseq(p))[k].end as int),
{
    let old_m = om + optseq(op); let new_m = m + optseq(p); let post = pre.push(e);
    assert forall|k: int| 0 <= k < new_m.len() implies is_start(post, (#[trigger] new_m[k]).start as int) && is_end(post, new_m[k].end as int) by {
        lemma_bounds_push(pre, e, e.start as int);
        if k < new_m.len() - 1 {
            assert(new_m[k] == old_m[k]);
            lemma_bounds_push(pre, e, old_m[k].start as int);
            lemma_bounds_push(pre, e, old_m[k].end as int);
        } else if op is Some && new_m.len() == old_m.len() {
            let q = op->Some_0;
            assert(old_m[old_m.len() - 1] == q);
            lemma_bounds_push(pre, e, q.start as int);
        } else {
            assert(new_m[k] == e);
        }
    }
}
pub proof fn lemma_merge_step_gap(pre: Seq<Extent>, e: Extent, om: Seq<Extent>, op: Option<Extent>, m: Seq<Extent>, p: Option<Extent>)
    requires merge_step(om, op, e, m, p),
        op is Some ==> pre.len() > 0 && op->Some_0.end == pre[pre.len() - 1].end && op->Some_0.start <= op->Some_0.end,
        forall|b: int| #[trigger] covered(om + optseq(op), b) ==> covered(pre, b) || in_gap(pre, b),
    ensures
        forall|b: int| #[trigger] covered(m + optseq(p), b) ==> covered(pre.push(e), b) || in_gap(pre.push(e), b),
{
    let old_m = om + optseq(op); let new_m = m + optseq(p); let post = pre.push(e); let n = pre.len() as int;
    assert(post[n] == e);
    assert forall|b: int| #[trigger] covered(new_m, b) implies covered(post, b) || in_gap(post, b) by {
        let j = choose|j: int| 0 <= j < new_m.len() && inx(#[trigger] new_m[j], b);
        lemma_gap_push(pre, e, b);
        if j < new_m.len() - 1 {
            assert(new_m[j] == old_m[j]);
            assert(inx(old_m[j], b));
            assert(covered(old_m, b));
        } else if op is Some && new_m.len() == old_m.len() {
            let q = op->Some_0;
            assert(old_m[old_m.len() - 1] == q);
            if b < q.end { assert(inx(old_m[old_m.len() - 1], b)); assert(covered(old_m, b)); }
            else if b == q.end { assert(post[n - 1] == pre[n - 1]); assert(post[n - 1].end == b && post[n].start == b + 1); }
            else { assert(inx(post[n], b)); }
        } else {
            assert(new_m[j] == e);
            assert(inx(post[n], b));
        }
    }
}

pub proof fn lemma_merge_step_cover(pre: Seq<Extent>, e: Extent, om: Seq<Extent>, op: Option<Extent>, m: Seq<Extent>, p: Option<Extent>)
    requires merge_step(om, op, e, m, p), ext_wf1(e), op is Some ==> ext_wf1(op->Some_0),
        forall|b: int| covered(pre, b) ==> covered(om + optseq(op), b),
    ensures forall|b: int| covered(pre.push(e), b) ==> covered(m + optseq(p), b),
{
    let old_m = om + optseq(op); let new_m = m + optseq(p); let post = pre.push(e);
    let nl = new_m.len() as int;
    // shape of the new list, case by case of merge_step
    assert(p is Some);
    assert(new_m[nl - 1] == p->Some_0);
    assert forall|j: int| 0 <= j < om.len() implies new_m[j] == om[j] && old_m[j] == om[j] by {
        if op is Some && e.start != op->Some_0.end + 1 { assert(m == om.push(op->Some_0)); assert(m[j] == om[j]); }
    }
    assert forall|b: int| covered(post, b) implies covered(new_m, b) by {
        let i = choose|i: int| 0 <= i < post.len() && inx(#[trigger] post[i], b);
        if i < pre.len() {
            assert(pre[i] == post[i]);
            assert(inx(pre[i], b));
            assert(covered(pre, b));
            assert(covered(old_m, b));
            let j = choose|j: int| 0 <= j < old_m.len() && inx(#[trigger] old_m[j], b);
            if j < om.len() {
                assert(new_m[j] == old_m[j]);
                assert(inx(new_m[j], b));
            } else {
                // b lies in the previous pending extent q
                assert(op is Some);
                let q = op->Some_0;
                assert(old_m[j] == q);
                if e.start == q.end + 1 {
                    // merged: the pending extent now spans [q.start, e.end)
                    assert(p->Some_0.start == q.start && p->Some_0.end == e.end);
                    assert(q.end <= e.end);
                    assert(inx(new_m[nl - 1], b));
                } else {
                    // q was pushed onto `m`
                    assert(m == om.push(q));
                    assert(new_m[om.len() as int] == q);
                    assert(inx(new_m[om.len() as int], b));
                }
            }
        } else {
            assert(post[i] == e);
            if op is Some && e.start == op->Some_0.end + 1 {
                assert(p->Some_0.end == e.end && p->Some_0.start == op->Some_0.start);
                assert(op->Some_0.start <= op->Some_0.end);
                assert(inx(new_m[nl - 1], b));
            } else {
                assert(p == Some(e));
                assert(inx(new_m[nl - 1], b));
            }
        }
    }
}
pub proof fn lemma_merge_step_wf(pre: Seq<Extent>, e: Extent, om: Seq<Extent>, op: Option<Extent>, m: Seq<Extent>, p: Option<Extent>)
    requires merge_step(om, op, e, m, p), ext_wf1(e), ext_wf(om), ext_wf(optseq(op)),
    ensures ext_wf(m), ext_wf(optseq(p)),
{
    if op is Some { assert(ext_wf1(optseq(op)[0])); }
    assert forall|i: int| 0 <= i < m.len() implies ext_wf1(#[trigger] m[i]) by {
        if i < om.len() { assert(m[i] == om[i]); }
    }
}
pub proof fn lemma_merge_step_ends(e: Extent, om: Seq<Extent>, op: Option<Extent>, m: Seq<Extent>, p: Option<Extent>, b: int)
    requires merge_step(om, op, e, m, p), e.end <= b, ends_le(om + optseq(op), b),
    ensures ends_le(m + optseq(p), b),
{
    let old_m = om + optseq(op); let new_m = m + optseq(p);
    assert forall|i: int| 0 <= i < new_m.len() implies (#[trigger] new_m[i]).end <= b by {
        if i < om.len() { assert(new_m[i] == old_m[i]); }
        else if i < new_m.len() - 1 { assert(new_m[i] == old_m[old_m.len() - 1]); }
        else { assert(new_m[i].end == e.end); }
    }
}
pub proof fn lemma_merge_step_sorted(e: Extent, om: Seq<Extent>, op: Option<Extent>, m: Seq<Extent>, p: Option<Extent>)
    requires merge_step(om, op, e, m, p), ext_sorted(om + optseq(op)),
        op is Some ==> op->Some_0.start <= op->Some_0.end && op->Some_0.end <= e.start,
        op is None ==> om.len() == 0,
    ensures ext_sorted(m + optseq(p)),
{
    let old_m = om + optseq(op); let new_m = m + optseq(p);
    if op is Some {
        let q = op->Some_0; let last = old_m.len() - 1;
        assert(old_m[last] == q);
        if new_m.len() == old_m.len() {
            assert(new_m =~= old_m.update(last, new_m[last]));
            assert(new_m[last].start == q.start);
            assert forall|i: int, j: int| 0 <= i < j < new_m.len() implies (#[trigger] new_m[i]).end <= (#[trigger] new_m[j]).start by {
                assert(old_m[i].end <= old_m[j].start);
            }
        } else {
            assert(new_m =~= old_m.push(e));
            assert forall|i: int, j: int| 0 <= i < j < new_m.len() implies (#[trigger] new_m[i]).end <= (#[trigger] new_m[j]).start by {
                if j < old_m.len() { assert(old_m[i].end <= old_m[j].start); }
                else if i < last { assert(old_m[i].end <= old_m[last].start); }
                else { }
            }
        }
    } else {
        assert(new_m.len() == 1);
    }
}

/// C19 (b): every merged range begins at an input start and ends at an input end.  Opaque: callers that do not need it do not pay for the quantifiers.
#[verifier::opaque]
pub open spec fn merge_bounds_ok(inp: Seq<Extent>, out: Seq<Extent>) -> bool {
    forall|k: int| 0 <= k < out.len() ==> is_start(inp, (#[trigger] out[k]).start as int) && is_end(inp, out[k].end as int)
}
/// C19 (c): merged ranges add nothing but the single byte between input extents deemed adjacent
#[verifier::opaque]
pub open spec fn merge_gaps_ok(inp: Seq<Extent>, out: Seq<Extent>) -> bool {
    forall|b: int| #[trigger] covered(out, b) ==> covered(inp, b) || in_gap(inp, b)
}
