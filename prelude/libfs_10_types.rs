// ---- prelude/libfs_10_types.rs: type mirrors of libfs (hand-written from libfs/src/{errors,lib}.rs; thiserror's
// `#[from]` conversions are spelled out) ----
use super::*;

pub enum Error {
    InvalidSource(&'static str),
    IOError(io::Error),
    OSError(Errno),
    UnsupportedOperation,
}
impl From<io::Error> for Error { fn from(e: io::Error) -> (r: Error) { Error::IOError(e) } }
impl vstd::std_specs::convert::FromSpecImpl<io::Error> for Error {
    open spec fn obeys_from_spec() -> bool { true }
    open spec fn from_spec(e: io::Error) -> Error { Error::IOError(e) }
}
impl From<Errno> for Error { fn from(e: Errno) -> (r: Error) { Error::OSError(e) } }
impl vstd::std_specs::convert::FromSpecImpl<Errno> for Error {
    open spec fn obeys_from_spec() -> bool { true }
    open spec fn from_spec(e: Errno) -> Error { Error::OSError(e) }
}
pub type Result<T, E = Error> = std::result::Result<T, E>;

pub const XATTR_SUPPORTED: bool = true;

// ---- spec vocabulary for extents (C19, C11)
pub open spec fn ext_wf1(e: Extent) -> bool { e.start <= e.end && e.end < u64::MAX }
pub open spec fn ext_wf(s: Seq<Extent>) -> bool { forall|i: int| 0 <= i < s.len() ==> ext_wf1(#[trigger] s[i]) }
pub open spec fn inx(e: Extent, b: int) -> bool { e.start <= b < e.end }
pub open spec fn covered(s: Seq<Extent>, b: int) -> bool { exists|i: int| 0 <= i < s.len() && inx(#[trigger] s[i], b) }
pub open spec fn optseq(p: Option<Extent>) -> Seq<Extent> { match p { Some(e) => seq![e], None => seq![] } }

// ---- libfs::FileType (mirror of the enum in libfs/src/lib.rs)
pub enum FileType { File, Dir, Symlink, Socket, Fifo, Char, Block, Other }
impl FileType {
    pub open spec fn kind(&self) -> NodeKind {
        match self {
            FileType::File => NodeKind::File, FileType::Dir => NodeKind::Dir, FileType::Symlink => NodeKind::Symlink,
            FileType::Socket => NodeKind::Socket, FileType::Fifo => NodeKind::Fifo, FileType::Char => NodeKind::Char,
            FileType::Block => NodeKind::Block, FileType::Other => NodeKind::Other,
        }
    }
}
// the conversions' *bodies* are extracted from lib.rs and verified against these spec functions
impl vstd::std_specs::convert::FromSpecImpl<fs::FileType> for FileType {
    open spec fn obeys_from_spec() -> bool { true }
    open spec fn from_spec(ft: fs::FileType) -> FileType {
        match ft.kind() {
            NodeKind::File => FileType::File, NodeKind::Dir => FileType::Dir, NodeKind::Symlink => FileType::Symlink,
            NodeKind::Socket => FileType::Socket, NodeKind::Fifo => FileType::Fifo, NodeKind::Char => FileType::Char,
            NodeKind::Block => FileType::Block, NodeKind::Other => FileType::Other,
        }
    }
}
impl vstd::std_specs::convert::FromSpecImpl<Extent> for Range<u64> {
    open spec fn obeys_from_spec() -> bool { true }
    open spec fn from_spec(e: Extent) -> Range<u64> { Range { start: e.start, end: e.end } }
}
pub open spec fn ends_le(s: Seq<Extent>, b: int) -> bool { forall|i: int| 0 <= i < s.len() ==> (#[trigger] s[i]).end <= b }
/// ordered and pairwise disjoint
pub open spec fn ext_sorted(s: Seq<Extent>) -> bool { forall|i: int, j: int| 0 <= i < j < s.len() ==> (#[trigger] s[i]).end <= (#[trigger] s[j]).start }
