// ---- prelude/libxcp_20_chan.rs: crossbeam channel, atomics, thread pool (TRUSTED library stand-ins) ----
pub trait ChanMsg { spec fn event(self) -> Event; }
impl ChanMsg for StatusUpdate {
    open spec fn event(self) -> Event {
        match self { StatusUpdate::Copied(n) => Event::DeliverCopied(n), StatusUpdate::Size(n) => Event::DeliverSize(n), StatusUpdate::Error(_) => Event::DeliverError }
    }
}
pub open spec fn op_of(o: Operation) -> Op {
    match o { Operation::Copy(a, b) => Op::Copy(a.key(), b.key()), Operation::Link(a, b) => Op::Link(a.key(), b.key()), Operation::Special(a, b) => Op::Special(a.key(), b.key()) }
}
impl ChanMsg for Operation {
    open spec fn event(self) -> Event { Event::Queue(op_of(self)) }
}
pub mod cbc {
    use super::*;
    pub use super::cbc_ctor::{unbounded, bounded};
    #[verifier::external_body]
    #[verifier::reject_recursive_types(T)]
    pub struct Sender<T> { x: std::marker::PhantomData<T> }
    #[verifier::external_body]
    #[verifier::reject_recursive_types(T)]
    pub struct Receiver<T> { x: std::marker::PhantomData<T> }
    #[verifier::external_body]
    #[verifier::reject_recursive_types(T)]
    pub struct RecvIter<T> { x: std::marker::PhantomData<T> }

    impl<T: ChanMsg> Sender<T> {
        /// unbounded channel send: fails only when every receiver is gone
        #[verifier::external_body]
        pub fn send(&self, msg: T, Tracked(w): Tracked<&mut World>) -> (r: std::result::Result<(), SendError>)
            ensures fr_chan(*old(w), *final(w)), final(w).reported == old(w).reported && final(w).announced == old(w).announced && final(w).errors_sent == old(w).errors_sent,
                match r {
                    Ok(_) => final(w).faults == old(w).faults && final(w).trace == old(w).trace.push(msg.event()),
                    Err(_) => final(w).faults == old(w).faults + 1 && final(w).trace == old(w).trace,
                },
        { unimplemented!() }
    }
    impl<T> Receiver<T> { pub uninterp spec fn chan(&self) -> int; }
    pub uninterp spec fn recv_remaining<T>(it: &RecvIter<T>) -> Seq<T>;
    /// the (finite, unknown) sequence of messages a receiver will deliver until the channel closes
    pub uninterp spec fn recv_remaining_of<T>(r: &Receiver<T>) -> Seq<T>;
    impl<T> Iterator for RecvIter<T> {
        type Item = T;
        #[verifier::external_body]
        fn next(&mut self) -> (r: Option<T>) { unimplemented!() }
    }
    /// A-walk: a closed channel yields a finite (unknown) sequence of messages
    impl<T> vstd::std_specs::iter::IteratorSpecImpl for RecvIter<T> {
        open spec fn obeys_prophetic_iter_laws(&self) -> bool { true }
        open spec fn remaining(&self) -> Seq<T> { recv_remaining(self) }
        open spec fn will_return_none(&self) -> bool { true }
        open spec fn decrease(&self) -> Option<nat> { Some(recv_remaining(self).len()) }
        open spec fn peek(&self, i: int) -> Option<T> { if 0 <= i < recv_remaining(self).len() { Some(recv_remaining(self)[i]) } else { None } }
    }
    impl<T> IntoIterator for Receiver<T> {
        type Item = T;
        type IntoIter = RecvIter<T>;
        #[verifier::external_body]
        fn into_iter(self) -> (r: RecvIter<T>) ensures recv_remaining(&r) == recv_remaining_of(&self) { unimplemented!() }
    }
}

pub enum Ordering { Relaxed }
#[verifier::external_body]
pub struct AtomicU64 { x: u8 }
impl AtomicU64 {
    /// A-total: fewer than 2^64 bytes are reported per run, so the running total does not wrap
    #[verifier::external_body]
    pub fn fetch_add(&self, val: u64, order: Ordering) -> (r: u64) ensures r + val <= u64::MAX { unimplemented!() }
}
