// ---- prelude/libxcp_40_walk.rs: walkdir stand-ins and the path-mapping rule (C02) ----
pub mod walkdir {
    use super::*;
    #[verifier::external_body]
    pub struct DirEntry { x: u8 }
    impl DirEntry {
        pub uninterp spec fn pathkey(&self) -> PathKey;
        #[verifier::external_body]
        pub fn into_path(self) -> (r: PathBuf) ensures r.key() == self.pathkey() { unimplemented!() }
    }
    #[verifier::external_body]
    pub struct Error { x: u8 }
}
pub uninterp spec fn any_from_walk(e: walkdir::Error) -> AnyError;
impl From<walkdir::Error> for AnyError { #[verifier::external_body] fn from(e: walkdir::Error) -> (r: AnyError) { unimplemented!() } }
impl vstd::std_specs::convert::FromSpecImpl<walkdir::Error> for AnyError {
    open spec fn obeys_from_spec() -> bool { true }
    open spec fn from_spec(e: walkdir::Error) -> AnyError { any_from_walk(e) }
}

/// cp's mapping rule, first half: where the tree rooted at `source` goes
pub open spec fn target_base_of(ps: Map<PathKey, Node>, source: PathKey, dest: PathKey, no_target_directory: bool) -> PathKey {
    if is_dir_m(ps, dest) && !no_target_directory { pjoin(dest, plast(source)->Some_0) } else { dest }
}
/// second half: where the walked entry `e` of the tree rooted at `source` goes
pub open spec fn map_target(tb: PathKey, source: PathKey, e: PathKey) -> PathKey {
    if prel(e, source) == pempty() { tb } else { pjoin(tb, prel(e, source)) }
}
/// event `ev` queues a Copy onto `t` of some path that designates inode `ino`
pub open spec fn copy_queued(ev: Event, t: PathKey, ino: Inode, ps: Map<PathKey, Node>) -> bool {
    ev is Queue && ev->Queue_0 is Copy && ev->Queue_0->Copy_1 == t && ps[ev->Queue_0->Copy_0].inode == ino
}
