// ---- prelude/libxcp_40_walk.rs: walkdir stand-ins and the path-mapping rule (C02) ----
/// A-walk: the walk of a root is a fixed finite sequence of items (entries or errors), determined by the root and the filter in force
/// `follow` is walkdir's follow_links setting: with it the walk descends into directories reached through symbolic links (yielding the
/// entries beneath them under the link's path) and reports a link loop or a dangling link as an error item; without it a link is a leaf.
pub uninterp spec fn walk_of(root: PathKey, follow: bool) -> Seq<std::result::Result<walkdir::DirEntry, walkdir::Error>>;
pub open spec fn walk_seq(root: PathKey) -> Seq<std::result::Result<walkdir::DirEntry, walkdir::Error>> { walk_of(root, false) }

pub mod walkdir {
    use super::*;
    #[verifier::external_body]
    pub struct DirEntry { x: u8 }
    impl DirEntry {
        pub uninterp spec fn pathkey(&self) -> PathKey;
        /// the type walkdir recorded for the entry: what lstat says, or what stat says when the walk follows links
        pub uninterp spec fn ft_kind(&self) -> NodeKind;
        pub uninterp spec fn followed(&self) -> bool;
        /// A-walk/A-stable: the recorded type is the one the namespace has for the entry
        pub open spec fn wf(&self, w: World) -> bool {
            w.paths.contains_key(self.pathkey()) && self.ft_kind() == (if self.followed() { w.paths[self.pathkey()].tkind } else { w.paths[self.pathkey()].kind })
        }
        #[verifier::external_body]
        pub fn into_path(self) -> (r: PathBuf) ensures r.key() == self.pathkey() { unimplemented!() }
        #[verifier::external_body]
        pub fn path(&self) -> (r: &Path) ensures r.key() == self.pathkey() { unimplemented!() }
        #[verifier::external_body]
        pub fn file_type(&self) -> (r: fs::FileType) ensures r.kind() == self.ft_kind() { unimplemented!() }
        #[verifier::external_body]
        pub fn path_is_symlink(&self) -> (r: bool) { unimplemented!() }
        /// the entry is the root of its walk (the source itself, depth 0), not an entry *of* the source directory
        pub uninterp spec fn is_root(&self) -> bool;
        #[verifier::external_body]
        pub fn depth(&self) -> (r: usize) ensures (r == 0) == self.is_root() { unimplemented!() }
        #[verifier::external_body]
        pub fn file_name(&self) -> (r: &OsStr) { unimplemented!() }
    }
    #[verifier::external_body]
    pub struct Error { x: u8 }
    impl Error {
        // inspection of a walk error: results opaque (whatever the error is, the item was not an entry)
        #[verifier::external_body] pub fn io_error(&self) -> (r: Option<&io::Error>) { unimplemented!() }
        #[verifier::external_body] pub fn path(&self) -> (r: Option<&Path>) { unimplemented!() }
        #[verifier::external_body] pub fn loop_ancestor(&self) -> (r: Option<&Path>) { unimplemented!() }
        #[verifier::external_body] pub fn depth(&self) -> (r: usize) { unimplemented!() }
        #[verifier::external_body] pub fn into_io_error(self) -> (r: Option<io::Error>) { unimplemented!() }
    }

    #[verifier::external_body]
    pub struct WalkDir { x: u8 }
    impl WalkDir {
        pub uninterp spec fn root(&self) -> PathKey;
        pub uninterp spec fn follow(&self) -> bool;
        pub uninterp spec fn xdev(&self) -> bool;
        /// walkdir's default: links are not followed
        #[verifier::external_body]
        pub fn new(p: &Path) -> (r: WalkDir) ensures r.root() == p.key(), !r.follow(), !r.xdev() { unimplemented!() }
        #[verifier::external_body]
        pub fn follow_links(self, yes: bool) -> (r: WalkDir) ensures r.root() == self.root(), r.follow() == yes, r.xdev() == self.xdev() { unimplemented!() }
        #[verifier::external_body]
        pub fn follow_root_links(self, yes: bool) -> (r: WalkDir) ensures r.root() == self.root(), r.follow() == self.follow(), r.xdev() == self.xdev() { unimplemented!() }
        /// the other builder settings that change *what* is delivered or whether a directory comes before its contents: any of them away from
        /// walkdir's default makes the walk something else than `walk_of(root, follow)` (xdev stands for "not the plain walk")
        #[verifier::external_body]
        pub fn contents_first(self, yes: bool) -> (r: WalkDir) ensures r.root() == self.root(), r.follow() == self.follow(), r.xdev() == (self.xdev() || yes) { unimplemented!() }
        #[verifier::external_body]
        pub fn min_depth(self, d: usize) -> (r: WalkDir) ensures r.root() == self.root(), r.follow() == self.follow(), r.xdev() == (self.xdev() || d > 0) { unimplemented!() }
        #[verifier::external_body]
        pub fn max_depth(self, d: usize) -> (r: WalkDir) ensures r.root() == self.root(), r.follow() == self.follow(), r.xdev() == (self.xdev() || d < usize::MAX) { unimplemented!() }
        /// order among siblings: no contract depends on it
        #[verifier::external_body]
        pub fn sort_by_file_name(self) -> (r: WalkDir) ensures r.root() == self.root(), r.follow() == self.follow(), r.xdev() == self.xdev() { unimplemented!() }
        #[verifier::external_body]
        pub fn max_open(self, n: usize) -> (r: WalkDir) ensures r.root() == self.root(), r.follow() == self.follow(), r.xdev() == self.xdev() { unimplemented!() }
        /// with it the walk does not descend into a directory on another filesystem (the directory itself is still delivered)
        #[verifier::external_body]
        pub fn same_file_system(self, yes: bool) -> (r: WalkDir) ensures r.root() == self.root(), r.follow() == self.follow(), r.xdev() == yes { unimplemented!() }
        #[verifier::external_body]
        pub fn into_iter(self) -> (r: IntoIter) ensures r.root() == self.root(), r.follow() == self.follow(), r.xdev() == self.xdev() { unimplemented!() }
    }
    #[verifier::external_body]
    pub struct IntoIter { x: u8 }
    impl IntoIter {
        pub uninterp spec fn root(&self) -> PathKey;
        pub uninterp spec fn follow(&self) -> bool;
        pub uninterp spec fn xdev(&self) -> bool;
        /// filter_entry prunes *entries* the predicate rejects (and what lies beneath them); errors are passed through.
        /// The filtered walk is what `walk_of(root, follow)` stands for.
        #[verifier::external_body]
        pub fn filter_entry<P: FnMut(&DirEntry) -> bool>(self, pred: P) -> (r: FilterEntry) ensures r.root() == self.root(), !self.xdev() ==> walk_remaining(&r) == walk_of(self.root(), self.follow()) { unimplemented!() }
    }
    #[verifier::external_body]
    pub struct FilterEntry { x: u8 }
    impl FilterEntry { pub uninterp spec fn root(&self) -> PathKey; }
    pub uninterp spec fn walk_remaining(it: &FilterEntry) -> Seq<std::result::Result<DirEntry, Error>>;
    impl Iterator for FilterEntry {
        type Item = std::result::Result<DirEntry, Error>;
        #[verifier::external_body]
        fn next(&mut self) -> (r: Option<std::result::Result<DirEntry, Error>>) { unimplemented!() }
    }
    impl vstd::std_specs::iter::IteratorSpecImpl for FilterEntry {
        open spec fn obeys_prophetic_iter_laws(&self) -> bool { true }
        open spec fn remaining(&self) -> Seq<std::result::Result<DirEntry, Error>> { walk_remaining(self) }
        open spec fn will_return_none(&self) -> bool { true }
        open spec fn decrease(&self) -> Option<nat> { Some(walk_remaining(self).len()) }
        open spec fn peek(&self, i: int) -> Option<std::result::Result<DirEntry, Error>> { if 0 <= i < walk_remaining(self).len() { Some(walk_remaining(self)[i]) } else { None } }
    }
}
pub use walkdir::{WalkDir, DirEntry};

/// paths.rs: the `ignore` crate (TRUSTED, outside Verus).  What a matcher excludes is the crate's business (assumed to be git's pattern
/// semantics): `gi_ignored(matcher, path, is_dir)`.  What xcp decides itself - whether a matcher is built at all, from which root and which
/// file, and which `is_dir` flag each entry is asked with - is under contract (C17).
pub mod ignore {
    pub mod gitignore { pub use super::super::{Gitignore, GitignoreBuilder}; }
    pub use super::{Match, IgnoreError as Error};
}
#[verifier::external_body]
pub struct Gitignore { x: u8 }
pub uninterp spec fn gi_ignored(gi: Gitignore, path: PathKey, is_dir: bool) -> bool;
pub uninterp spec fn gi_parent(p: PathKey) -> PathKey;
impl Gitignore {
    /// the directory the patterns are anchored at, and the files they were read from (in order)
    pub uninterp spec fn root(&self) -> PathKey;
    pub uninterp spec fn files(&self) -> Seq<PathKey>;
    #[verifier::external_body]
    pub fn path(&self) -> (r: &Path) ensures r.key() == self.root() { unimplemented!() }
    /// the crate's convenience constructor: reads `path` and anchors the patterns at `path.parent()` (or "/") — a lexical parent, which is the
    /// directory the file was joined to only up to normalisation (`dir/.`, `dir//`): nothing is assumed about `gi_parent` here
    #[verifier::external_body]
    pub fn new<P: PathLike>(path: P) -> (r: (Gitignore, Option<IgnoreError>))
        ensures r.0.root() == gi_parent(path.pkey()), r.0.files() == seq![path.pkey()] { unimplemented!() }
    #[verifier::external_body]
    pub fn matched<P: PathLike>(&self, path: P, is_dir: bool) -> (r: Match) ensures r.ignores() == gi_ignored(*self, path.pkey(), is_dir) { unimplemented!() }
    #[verifier::external_body]
    pub fn matched_path_or_any_parents<P: PathLike>(&self, path: P, is_dir: bool) -> (r: Match) { unimplemented!() }
}
/// ignore::Match<&Glob>
#[verifier::external_body]
pub struct Match { x: u8 }
impl Match {
    pub uninterp spec fn ignores(&self) -> bool;
    #[verifier::external_body] pub fn is_ignore(&self) -> (r: bool) ensures r == self.ignores() { unimplemented!() }
    #[verifier::external_body] pub fn is_whitelist(&self) -> (r: bool) ensures r ==> !self.ignores() { unimplemented!() }
    #[verifier::external_body] pub fn is_none(&self) -> (r: bool) ensures r ==> !self.ignores() { unimplemented!() }
}
#[verifier::external_body]
pub struct IgnoreError { x: u8 }
pub uninterp spec fn any_from_ignore(e: IgnoreError) -> AnyError;
impl From<IgnoreError> for AnyError { #[verifier::external_body] fn from(e: IgnoreError) -> (r: AnyError) { unimplemented!() } }
impl vstd::std_specs::convert::FromSpecImpl<IgnoreError> for AnyError {
    open spec fn obeys_from_spec() -> bool { true }
    open spec fn from_spec(e: IgnoreError) -> AnyError { any_from_ignore(e) }
}
#[verifier::external_body]
pub struct GitignoreBuilder { x: u8 }
impl GitignoreBuilder {
    pub uninterp spec fn root(&self) -> PathKey;
    pub uninterp spec fn files(&self) -> Seq<PathKey>;
    #[verifier::external_body]
    pub fn new<P: PathLike>(root: P) -> (r: GitignoreBuilder) ensures r.root() == root.pkey(), r.files() == Seq::<PathKey>::empty() { unimplemented!() }
    /// reads the file now; a file that is not there (or cannot be read) adds no pattern and reports it in the result, which xcp drops:
    /// not counted as a fault here (see DESIGN §12)
    #[verifier::external_body]
    pub fn add<P: PathLike>(&mut self, path: P) -> (r: Option<IgnoreError>)
        ensures final(self).root() == old(self).root(), final(self).files() == old(self).files().push(path.pkey()) { unimplemented!() }
    /// compiles the patterns: a malformed glob is an error
    #[verifier::external_body]
    pub fn build(&self, Tracked(w): Tracked<&mut World>) -> (r: std::result::Result<Gitignore, IgnoreError>)
        ensures fr_ro(*old(w), *final(w)), final(w).faults == old(w).faults + (if r is Err { 1nat } else { 0 }),
            r is Ok ==> r->Ok_0.root() == self.root() && r->Ok_0.files() == self.files(),
    { unimplemented!() }
}
/// the filter as the walk's closure calls it (no world token can enter a closure): the contract is the one the real body is verified
/// against under the name `ignore_filter__impl` (contracts/65_libxcp_paths.spec), restated
#[verifier::external_body]
pub fn ignore_filter(entry: &walkdir::DirEntry, ignore: &Option<Gitignore>) -> (r: bool)
    ensures ignore is None ==> r,
        ignore is Some && entry.is_root() ==> r,
        ignore is Some && !entry.is_root() ==> r == !gi_ignored(ignore->Some_0, entry.pathkey(), entry.ft_kind() == NodeKind::Dir),
{ unimplemented!() }

pub uninterp spec fn any_from_walk(e: walkdir::Error) -> AnyError;
impl From<walkdir::Error> for AnyError { #[verifier::external_body] fn from(e: walkdir::Error) -> (r: AnyError) { unimplemented!() } }
impl vstd::std_specs::convert::FromSpecImpl<walkdir::Error> for AnyError {
    open spec fn obeys_from_spec() -> bool { true }
    open spec fn from_spec(e: walkdir::Error) -> AnyError { any_from_walk(e) }
}

/// cp's mapping rule, first half: where the tree rooted at `source` goes
pub open spec fn target_base_of(ps: Map<PathKey, Node>, source: PathKey, dest: PathKey, no_target_directory: bool) -> PathKey {
    // dest/basename when the source's last component names an entry; a source that ends in `.`, `..` or is the root has no
    // basename: like cp, its *contents* go into the destination (joining `..` would create entries outside the destination)
    if is_dir_m(ps, dest) && !no_target_directory && pnormal(plast(source)->Some_0) { pjoin(dest, plast(source)->Some_0) } else { dest }
}
/// second half: where the walked entry `e` of the tree rooted at `source` goes
pub open spec fn map_target(tb: PathKey, source: PathKey, e: PathKey) -> PathKey {
    if prel(e, source) == pempty() { tb } else { pjoin(tb, prel(e, source)) }
}
/// event `ev` queues a Copy onto `t` of some path that designates inode `ino`
pub open spec fn copy_queued(ev: Event, t: PathKey, ino: Inode, ps: Map<PathKey, Node>) -> bool {
    ev is Queue && ev->Queue_0 is Copy && ev->Queue_0->Copy_1 == t && ps[ev->Queue_0->Copy_0].inode == ino
}

/// C12: total length of the regular files among the first `upto` items of a walk, sizes and kinds taken from the namespace `ps`
pub open spec fn sum_sizes(ps: Map<PathKey, Node>, items: Seq<std::result::Result<walkdir::DirEntry, walkdir::Error>>, upto: int) -> nat
    decreases upto
{
    if upto <= 0 { 0 } else {
        sum_sizes(ps, items, upto - 1) + (match items[upto - 1] {
            Ok(e) => if ps[e.pathkey()].kind == NodeKind::File { ps[e.pathkey()].size as nat } else { 0 },
            Err(_) => 0,
        })
    }
}
/// ... and over the walks of the first `n` sources
pub open spec fn sum_sources(ps: Map<PathKey, Node>, sources: Seq<PathBuf>, n: int) -> nat
    decreases n
{
    if n <= 0 { 0 } else { sum_sources(ps, sources, n - 1) + sum_sizes(ps, walk_seq(sources[n - 1].key()), walk_seq(sources[n - 1].key()).len() as int) }
}
/// every entry the walks deliver was already present in the namespace `ps` (the sources are not created by the run itself)
pub open spec fn walk_known(ps: Map<PathKey, Node>, sources: Seq<PathBuf>) -> bool {
    forall|i: int, j: int| 0 <= i < sources.len() && 0 <= j < walk_seq(sources[i].key()).len() && (#[trigger] walk_seq(sources[i].key())[j]) is Ok
        ==> ps.contains_key(walk_seq(sources[i].key())[j]->Ok_0.pathkey())
}

/// status updates: events that announce or report, but create / queue nothing
pub open spec fn is_update(e: Event) -> bool { e is SendSize || e is SendCopied || e is SendError }
/// among the events from position `n0` on, `ev` occurs exactly once and everything else is a status update
pub open spec fn sole_effect(tr: Seq<Event>, n0: int, ev: Event) -> bool {
    exists|k: int| n0 <= k < tr.len() && #[trigger] tr[k] == ev
        && (forall|j: int| n0 <= j < tr.len() && j != k ==> is_update(#[trigger] tr[j]))
}
/// ... the one effect being a Copy onto `t` of some path that designates inode `ino`
pub open spec fn sole_copy_queued(tr: Seq<Event>, n0: int, t: PathKey, ino: Inode, ps: Map<PathKey, Node>) -> bool {
    exists|k: int| n0 <= k < tr.len() && copy_queued(#[trigger] tr[k], t, ino, ps)
        && (forall|j: int| n0 <= j < tr.len() && j != k ==> is_update(#[trigger] tr[j]))
}
/// ... the one effect being a Special operation onto `t`
pub open spec fn sole_special_queued(tr: Seq<Event>, n0: int, t: PathKey) -> bool {
    exists|k: int| n0 <= k < tr.len() && (#[trigger] tr[k]) is Queue && tr[k]->Queue_0 is Special && tr[k]->Queue_0->Special_1 == t
        && (forall|j: int| n0 <= j < tr.len() && j != k ==> is_update(#[trigger] tr[j]))
}
/// the destination path of a queued operation
pub open spec fn op_target(o: Op) -> PathKey { match o { Op::Copy(_, t) => t, Op::Link(_, t) => t, Op::Special(_, t) => t } }
/// C08: nothing queued since trace position `n0` goes onto an entry that resolved in the namespace `ps`
pub open spec fn queued_onto_new(tr: Seq<Event>, n0: int, ps: Map<PathKey, Node>) -> bool {
    forall|k: int| n0 <= k < tr.len() && (#[trigger] tr[k]) is Queue ==> !exists_m(ps, op_target(tr[k]->Queue_0))
}
