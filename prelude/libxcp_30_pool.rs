// ---- prelude/libxcp_30_pool.rs: blocking-threadpool stand-ins and the lifted block job (R6) ----
#[verifier::external_body]
pub struct ThreadPool { x: u8 }
pub struct Builder { }
impl Builder {
    pub fn new() -> (r: Builder) { Builder { } }
    pub fn num_threads(self, n: usize) -> (r: Builder) { self }
    pub fn queue_len(self, n: usize) -> (r: Builder) { self }
    #[verifier::external_body]
    pub fn build(self) -> (r: ThreadPool) { unimplemented!() }
}
impl ThreadPool {
    /// A-pool: returns once every queued job has run
    #[verifier::external_body]
    pub fn join(&self) { unimplemented!() }
}
impl Config {
    #[verifier::external_body]
    pub fn num_workers(&self) -> (r: usize) { unimplemented!() }
}

/// what a block job may assume when it runs (proved by the dispatcher at queue time)
pub open spec fn job_pre(h: CopyHandle, bytes: u64, off: u64) -> bool {
    h.infd.inode() != h.outfd.inode() && off + bytes <= i64::MAX
}
/// R6: `pool.execute(move || BODY)` with BODY lifted to `queue_file_range__job`; queuing records the job.
/// A-pool: the pool later runs BODY exactly once with exactly these captured values.
#[verifier::external_body]
pub fn pool_execute_job(pool: &ThreadPool, harc: Arc<CopyHandle>, stat_tx: Arc<dyn StatusUpdater>, bytes: u64, off: u64, Tracked(w): Tracked<&mut World>)
    requires job_pre(*harc, bytes, off), bytes > 0,
    ensures fr_chan(*old(w), *final(w)), final(w).faults == old(w).faults,
        final(w).reported == old(w).reported && final(w).announced == old(w).announced && final(w).errors_sent == old(w).errors_sent,
        final(w).trace == old(w).trace.push(Event::Job(harc.infd.inode(), harc.outfd.inode(), off as int, bytes as int)),
{ unimplemented!() }

/// the bytes of block [off, off+bytes) that exist in a source of length `len`
pub open spec fn clip(off: int, bytes: int, len: int) -> int {
    if off >= len { 0 } else if off + bytes > len { len - off } else { bytes }
}
