// ---- prelude/libxcp_30_pool.rs: blocking-threadpool stand-ins and the lifted block job (R6) ----
#[verifier::external_body]
pub struct ThreadPool { x: u8 }
pub struct Builder { }
impl Builder {
    pub fn new() -> (r: Builder) { Builder { } }
    pub fn num_threads(self, n: usize) -> (r: Builder) { self }
    pub fn queue_len(self, n: usize) -> (r: Builder) { self }
    #[verifier::external_body]
    pub fn build(self) -> (r: ThreadPool) { unimplemented!() }
}
impl ThreadPool {
    /// A-pool: returns once every queued job has run (and its captured handle has been dropped)
    #[verifier::external_body]
    pub fn join(&self, Tracked(w): Tracked<&mut World>)
        ensures fr_chan(*old(w), *final(w)), final(w).faults == old(w).faults,
            final(w).reported == old(w).reported && final(w).announced == old(w).announced && final(w).errors_sent == old(w).errors_sent,
            final(w).trace == old(w).trace.push(Event::PoolJoin),
    { unimplemented!() }
}
/// num_cpus::get(): at least one
pub mod num_cpus {
    #[allow(unused_imports)] use super::*;
    #[verifier::external_body]
    pub fn get() -> (r: usize) ensures r >= 1 { unimplemented!() }
}

/// what a block job may assume when it runs (proved by the dispatcher at queue time)
pub use super::libfs::kend;
pub open spec fn job_pre(h: CopyHandle, bytes: u64, off: u64) -> bool {
    h.infd.inode() != h.outfd.inode() && off + bytes <= i64::MAX
}
/// R6: `pool.execute(move || BODY)` with BODY lifted to `queue_file_range__job`; queuing records the job.
/// A-pool: the pool later runs BODY exactly once with exactly these captured values.
#[verifier::external_body]
pub fn pool_execute_job(pool: &ThreadPool, harc: Arc<CopyHandle>, stat_tx: Arc<dyn StatusUpdater>, bytes: u64, off: u64, Tracked(w): Tracked<&mut World>)
    requires job_pre(*harc, bytes, off), bytes > 0,
    ensures fr_chan(*old(w), *final(w)), final(w).faults == old(w).faults,
        final(w).reported == old(w).reported && final(w).announced == old(w).announced && final(w).errors_sent == old(w).errors_sent,
        final(w).trace == old(w).trace.push(Event::Job(harc.infd.inode(), harc.outfd.inode(), off as int, bytes as int)),
{ unimplemented!() }

/// the bytes of block [off, off+bytes) that exist in a source of length `len`
pub open spec fn clip(off: int, bytes: int, len: int) -> int {
    if off >= len { 0 } else if off + bytes > len { len - off } else { bytes }
}

/// byte `b` of the destination `out` is inside some job queued at or after trace position `from`
pub open spec fn job_covers(t: Seq<Event>, from: int, out: Inode, b: int) -> bool {
    exists|k: int| from <= k < t.len() && is_job_on(#[trigger] t[k], out, b)
}
pub open spec fn is_job_on(e: Event, out: Inode, b: int) -> bool {
    e is Job && e->Job_1 == out && e->Job_2 <= b < e->Job_2 + e->Job_3
}
/// every job queued at or after `from` lies inside [lo, hi)
pub open spec fn jobs_within(t: Seq<Event>, from: int, lo: int, hi: int) -> bool {
    forall|k: int| from <= k < t.len() && (#[trigger] t[k]) is Job ==> lo <= t[k]->Job_2 && t[k]->Job_2 + t[k]->Job_3 <= hi && t[k]->Job_3 > 0
}

pub open spec fn in_kext(k: Seq<KExt>, b: int) -> bool { exists|i: int| 0 <= i < k.len() && (#[trigger] k[i]).logical <= b < kend(k[i]) }

pub proof fn lemma_job_covers_ext(t0: Seq<Event>, t1: Seq<Event>, from: int, out: Inode, b: int)
    requires from >= 0, tr_ext(t0, t1), job_covers(t0, from, out, b)
    ensures job_covers(t1, from, out, b)
{
    let k = choose|k: int| from <= k < t0.len() && is_job_on(#[trigger] t0[k], out, b);
    assert(t1[k] == t0[k]);
    assert(is_job_on(t1[k], out, b));
}
pub proof fn lemma_job_covers_from(t: Seq<Event>, from0: int, from1: int, out: Inode, b: int)
    requires from0 <= from1, job_covers(t, from1, out, b)
    ensures job_covers(t, from0, out, b)
{
    let k = choose|k: int| from1 <= k < t.len() && is_job_on(#[trigger] t[k], out, b);
    assert(is_job_on(t[k], out, b));
}

/// the jobs queued since trace position n0 tile [start, start+len) exactly once, in order, each non-empty and at most `bs` long.
/// Opaque: callers only need `job_covers` / `jobs_within`.
#[verifier::opaque]
pub open spec fn jobs_tile(t0: Seq<Event>, t1: Seq<Event>, src: Inode, out: Inode, start: int, len: int, bs: int) -> bool {
    let n0 = t0.len() as int;
    let nb = len / bs + (if len % bs > 0 { 1int } else { 0 });
    &&& t1.len() == n0 + nb
    &&& forall|k: int| 0 <= k < nb ==> #[trigger] t1[n0 + k] == Event::Job(src, out, start + k * bs, if len - k * bs < bs { len - k * bs } else { bs })
}

/// the single byte between two consecutive kernel extents one byte apart (what merge_extents deems adjacent)
pub open spec fn kgap(k: Seq<KExt>, b: int) -> bool { exists|i: int| 0 <= i < k.len() - 1 && kend(#[trigger] k[i]) == b && k[i + 1].logical == b + 1 }
/// every job queued at or after `from` lies inside one of the ranges `s[0..upto)`
pub open spec fn jobs_in_ranges(t: Seq<Event>, from: int, s: Seq<Extent>, upto: int) -> bool {
    forall|k: int| from <= k < t.len() && (#[trigger] t[k]) is Job ==> exists|j: int| 0 <= j < upto && (#[trigger] s[j]).start <= t[k]->Job_2 && t[k]->Job_2 + t[k]->Job_3 <= s[j].end
}
/// every byte of every job queued at or after `from` is mapped by FIEMAP or is such a gap byte (C11 for the parblock driver)
pub open spec fn jobs_in_kext(t: Seq<Event>, from: int, k: Seq<KExt>) -> bool {
    forall|i: int, b: int| from <= i < t.len() && (#[trigger] t[i]) is Job && t[i]->Job_2 <= b < t[i]->Job_2 + t[i]->Job_3 ==> #[trigger] in_kext(k, b) || kgap(k, b)
}
pub proof fn lemma_mirror_cover(v: Seq<Extent>, k: Seq<KExt>, b: int)
    requires mirrors(v, k, k.len() as int)
    ensures covered(v, b) ==> in_kext(k, b), in_gap(v, b) ==> kgap(k, b),
{
    if covered(v, b) { let i = choose|i: int| 0 <= i < v.len() && inx(#[trigger] v[i], b); assert(k[i].logical <= b < kend(k[i])); }
    if in_gap(v, b) { let i = choose|i: int| 0 <= i < v.len() - 1 && (#[trigger] v[i]).end == b && v[i + 1].start == b + 1; assert(kend(k[i]) == b && k[i + 1].logical == b + 1); }
}
pub proof fn lemma_jobs_in_kext(t: Seq<Event>, from: int, smap: Seq<Extent>, exts: Seq<Extent>, k: Seq<KExt>)
    requires jobs_in_ranges(t, from, smap, smap.len() as int), merge_gaps_ok(exts, smap), mirrors(exts, k, k.len() as int)
    ensures jobs_in_kext(t, from, k)
{
    reveal(merge_gaps_ok);
    assert forall|i: int, b: int| from <= i < t.len() && (#[trigger] t[i]) is Job && t[i]->Job_2 <= b < t[i]->Job_2 + t[i]->Job_3 implies #[trigger] in_kext(k, b) || kgap(k, b) by {
        let j = choose|j: int| 0 <= j < smap.len() && (#[trigger] smap[j]).start <= t[i]->Job_2 && t[i]->Job_2 + t[i]->Job_3 <= smap[j].end;
        assert(inx(smap[j], b));
        assert(covered(smap, b));
        lemma_mirror_cover(exts, k, b);
    }
}

/// every job queued at or after trace position `from` is followed by a wait for the pool
pub open spec fn joined_after_jobs(t: Seq<Event>, from: int) -> bool {
    forall|k: int| from <= k < t.len() && (#[trigger] t[k]) is Job ==> exists|m: int| k < m < t.len() && #[trigger] t[m] == Event::PoolJoin
}
pub proof fn lemma_join_last(t: Seq<Event>, from: int)
    requires t.len() > 0, t.last() == Event::PoolJoin,
    ensures joined_after_jobs(t, from),
{
    assert forall|k: int| from <= k < t.len() && (#[trigger] t[k]) is Job implies exists|m: int| k < m < t.len() && #[trigger] t[m] == Event::PoolJoin by {
        assert(k < t.len() - 1 && t[t.len() - 1] == Event::PoolJoin);
    }
}
