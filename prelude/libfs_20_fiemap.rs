// ---- prelude/libfs_20_fiemap.rs: spec vocabulary for FIEMAP (K-fiemap, DESIGN.md §3.3) ----
pub open spec fn kend(e: KExt) -> int { e.logical + e.length }
/// the kernel's extent list: non-empty extents, sorted, pairwise disjoint, within off_t, LAST on the final one only
pub open spec fn kext_wf(k: Seq<KExt>) -> bool {
    &&& forall|i: int| 0 <= i < k.len() ==> (#[trigger] k[i]).logical >= 0 && k[i].length > 0 && kend(k[i]) <= i64::MAX
    &&& forall|i: int, j: int| 0 <= i < j < k.len() ==> kend(#[trigger] k[i]) <= (#[trigger] k[j]).logical
    &&& forall|i: int| 0 <= i < k.len() ==> ((#[trigger] k[i]).flags & FIEMAP_EXTENT_LAST != 0 <==> i == k.len() - 1)
}
/// one FS_IOC_FIEMAP answer: the next <= 32 extents whose end lies beyond fm_start
spec fn fiemap_page(k: Seq<KExt>, o: FiemapReq, f: FiemapReq) -> bool {
    &&& f.fm_start == o.fm_start && f.fm_length == o.fm_length && f.fm_flags == o.fm_flags && f.fm_extent_count == o.fm_extent_count
    &&& exists|first: int| fiemap_page_at(k, o, f, first)
}
spec fn fiemap_page_at(k: Seq<KExt>, o: FiemapReq, f: FiemapReq, first: int) -> bool {
    &&& 0 <= first <= k.len()
    &&& (forall|i: int| 0 <= i < first ==> kend(#[trigger] k[i]) <= o.fm_start)
    &&& (first < k.len() ==> kend(k[first]) > o.fm_start)
    &&& f.fm_mapped_extents == (if k.len() - first > 32 { 32 } else { k.len() - first })
    &&& (forall|j: int| 0 <= j < f.fm_mapped_extents ==> {
            &&& (#[trigger] f.fm_extents[j]).fe_logical == k[first + j].logical
            &&& f.fm_extents[j].fe_length == k[first + j].length
            &&& f.fm_extents[j].fe_flags == k[first + j].flags
        })
}
/// `v` is the element-wise image of the first `n` kernel extents
pub open spec fn mirrors(v: Seq<Extent>, k: Seq<KExt>, n: int) -> bool {
    &&& v.len() == n && n <= k.len()
    &&& forall|i: int| 0 <= i < n ==> (#[trigger] v[i]).start == k[i].logical && v[i].end == kend(k[i])
            && v[i].shared == (k[i].flags & FIEMAP_EXTENT_SHARED != 0)
}

/// the extents map_extents returns are well-formed, ordered, disjoint and within off_t (proved from K-fiemap's shape)
pub proof fn lemma_mirrors_wf(v: Seq<Extent>, k: Seq<KExt>)
    requires kext_wf(k), mirrors(v, k, k.len() as int)
    ensures ext_wf(v), ext_sorted(v), ends_le(v, i64::MAX as int)
{
    assert forall|i: int| 0 <= i < v.len() implies ext_wf1(#[trigger] v[i]) by { assert(k[i].length > 0); }
    assert forall|i: int, j: int| 0 <= i < j < v.len() implies (#[trigger] v[i]).end <= (#[trigger] v[j]).start by { assert(kend(k[i]) <= k[j].logical); }
    assert forall|i: int| 0 <= i < v.len() implies (#[trigger] v[i]).end <= i64::MAX as int by { assert(kend(k[i]) <= i64::MAX); }
}
