// ---- prelude/header.rs: outside verus!{} ----
// M1-M3 of DESIGN.md §3.2: the logging/formatting macros of the real code keep their
// text in the extracted bodies and get their meaning here.  Arguments are not evaluated
// (in the real code they are `{:?}`/`{}` formatting of values only).
#![allow(unused)]
#![allow(non_camel_case_types)]
#![allow(non_snake_case)]
use vstd::prelude::*;
macro_rules! debug { ($($t:tt)*) => { () } }
macro_rules! info { ($($t:tt)*) => { () } }
macro_rules! warn { ($($t:tt)*) => { () } }
macro_rules! error { ($($t:tt)*) => { () } }
macro_rules! format { ($($t:tt)*) => { crate::opaque_string() } }
// M3: `panic!(..)` in an extracted body is rewritten to `verif_panic!(..)` (the std macro cannot be shadowed:
// vstd's own expansions use it); it stands for thread abort = divergence (A-panic).
macro_rules! verif_panic { ($($t:tt)*) => { crate::diverge() } }
