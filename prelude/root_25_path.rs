// ---- prelude/root_25_path.rs: paths and the namespace (TRUSTED stand-ins) ----
// `Path` and `PathBuf` are one stand-in type (PathBuf = Path): the real code relies on Deref<Target = Path>
// coercions everywhere and no contract depends on ownership of the buffer.  Path *text* is abstracted to a key;
// `World.paths` maps a spelling to the directory entry it designates.  Two different keys may designate the
// same inode (another spelling, a hard link, a symbolic link): nothing below assumes otherwise.

#[verifier::external_body]
pub struct Path { x: u8 }
pub type PathBuf = Path;

#[verifier::external_body]
pub struct StripPrefixError { x: u8 }

/// path algebra (uninterpreted): join, the empty relative path, last component
pub uninterp spec fn pjoin(a: PathKey, b: PathKey) -> PathKey;
pub uninterp spec fn pempty() -> PathKey;
pub uninterp spec fn plast(a: PathKey) -> Option<PathKey>;
/// `prel(full, base)`: what strip_prefix(base) leaves of `full`
pub uninterp spec fn prel(full: PathKey, base: PathKey) -> PathKey;

/// anything `Path::join` accepts (AsRef<Path> in std)
pub trait PathLike { spec fn pkey(&self) -> PathKey; }
impl PathLike for &Path { open spec fn pkey(&self) -> PathKey { self.key() } }
impl PathLike for Path { open spec fn pkey(&self) -> PathKey { self.key() } }
impl<'a> PathLike for Component<'a> { open spec fn pkey(&self) -> PathKey { self.key() } }
impl PathLike for &OsStr { open spec fn pkey(&self) -> PathKey { self.key() } }
/// a string literal used as a path (`dir.join(".gitignore")`)
pub uninterp spec fn key_of_str(s: &str) -> PathKey;
impl PathLike for &str { open spec fn pkey(&self) -> PathKey { key_of_str(*self) } }

/// a component is *normal* when it names an entry of its own: not `.`, `..`, the root or a prefix
pub uninterp spec fn pnormal(c: PathKey) -> bool;
pub uninterp spec fn pcomp_cur() -> PathKey;
pub uninterp spec fn pcomp_parent() -> PathKey;
pub uninterp spec fn pcomp_root() -> PathKey;
pub uninterp spec fn pcomp_prefix() -> PathKey;
/// std::path::Component (the Prefix payload is dropped: Unix paths have none)
pub enum Component<'a> { Prefix, RootDir, CurDir, ParentDir, Normal(&'a OsStr) }
impl<'a> Component<'a> {
    pub open spec fn key(&self) -> PathKey {
        match *self {
            Component::Normal(n) => n.key(),
            Component::CurDir => pcomp_cur(),
            Component::ParentDir => pcomp_parent(),
            Component::RootDir => pcomp_root(),
            Component::Prefix => pcomp_prefix(),
        }
    }
}
#[verifier::external_body]
pub struct Components<'a> { x: core::marker::PhantomData<&'a u8> }
impl<'a> Components<'a> {
    pub uninterp spec fn of(&self) -> PathKey;
    /// last component of the path, None for an empty path
    #[verifier::external_body]
    pub fn next_back(&mut self) -> (r: Option<Component<'a>>)
        ensures (r is Some) == (plast(old(self).of()) is Some), r is Some ==> r->Some_0.key() == plast(old(self).of())->Some_0,
            r is Some ==> (r->Some_0 is Normal) == pnormal(plast(old(self).of())->Some_0)
    { unimplemented!() }
}

pub open spec fn exists_m(ps: Map<PathKey, Node>, k: PathKey) -> bool { ps.contains_key(k) && ps[k].reach }
/// two resolving paths designate the same object (same inode number on the same device: what libfs::is_same_file compares)
pub open spec fn same_object(ps: Map<PathKey, Node>, a: PathKey, b: PathKey) -> bool {
    ino_num(ps[a].inode) == ino_num(ps[b].inode) && dev_num(ps[a].inode) == dev_num(ps[b].inode)
}
pub open spec fn is_dir_m(ps: Map<PathKey, Node>, k: PathKey) -> bool { exists_m(ps, k) && ps[k].tkind == NodeKind::Dir }

/// what stat(2) (following links) reports for entry `n`
pub open spec fn meta_of_node(m: Metadata, n: Node, fsm: Map<Inode, FileState>) -> bool {
    &&& m.spec_kind() == n.tkind && mode_kind(m.spec_mode()) == n.tkind
    &&& m.spec_rdev() == n.rdev && m.spec_dev() == dev_num(n.inode)
    &&& m.spec_ino() == ino_num(n.inode)
    &&& (n.tkind == NodeKind::File ==> meta_of_file(m, fsm[n.inode]))
    &&& (n.tkind != NodeKind::File ==> mode_perm(m.spec_mode()) == n.perm)
}
/// st_ino of an inode (injective per device; we only need a function)
pub uninterp spec fn ino_num(i: Inode) -> u64;
pub uninterp spec fn key_of_string(s: &String) -> PathKey;
/// textual equality of paths (`PartialEq for Path` compares components)
impl PartialEq for Path {
    #[verifier::external_body]
    fn eq(&self, o: &Path) -> (r: bool) { unimplemented!() }
}
impl vstd::std_specs::cmp::PartialEqSpecImpl for Path {
    open spec fn obeys_eq_spec() -> bool { true }
    open spec fn eq_spec(&self, o: &Path) -> bool { self.key() == o.key() }
}
/// st_dev of the filesystem holding an inode
pub uninterp spec fn dev_num(i: Inode) -> u64;

impl Path {
    pub uninterp spec fn key(&self) -> PathKey;

    /// `PathBuf::new()`: the empty path
    #[verifier::external_body]
    pub fn new() -> (r: Path) ensures r.key() == pempty() { unimplemented!() }
    #[verifier::external_body]
    pub fn from(s: &String) -> (r: Path) ensures r.key() == key_of_string(s) { unimplemented!() }
    #[verifier::external_body]
    pub fn components(&self) -> (r: Components<'_>) ensures r.of() == self.key() { unimplemented!() }
    #[verifier::external_body]
    pub fn to_path_buf(&self) -> (r: Path) ensures r.key() == self.key() { unimplemented!() }
    #[verifier::external_body]
    pub fn clone(&self) -> (r: Path) ensures r.key() == self.key() { unimplemented!() }
    #[verifier::external_body]
    pub fn join<P: PathLike>(&self, p: P) -> (r: Path) ensures r.key() == pjoin(self.key(), p.pkey()) { unimplemented!() }
    /// strip_prefix: `self == base/r` (or `r` is empty and `self == base`)
    #[verifier::external_body]
    pub fn strip_prefix<'a>(&'a self, base: &Path) -> (r: std::result::Result<&'a Path, StripPrefixError>)
        ensures r is Ok ==> r->Ok_0.key() == prel(self.key(), base.key())
            && (if r->Ok_0.key() == pempty() { self.key() == base.key() } else { self.key() == pjoin(base.key(), r->Ok_0.key()) })
    { unimplemented!() }

    /// stat(2).  A-probe (DESIGN §6): `exists`/`is_dir` below are assumed to answer truthfully.  std turns a stat
    /// that fails for another reason than ENOENT into `false` with no error to propagate; that case is outside the model.
    #[verifier::external_body]
    pub fn metadata(&self, Tracked(w): Tracked<&mut World>) -> (r: std::result::Result<Metadata, io::Error>)
        ensures fr_ro(*old(w), *final(w)),
            // ENOENT (nothing there / dangling link) is an answer, not a failed step; any other error is a fault
            final(w).faults == old(w).faults + (if r is Err && exists_m(old(w).paths, self.key()) { 1nat } else { 0 }),
            !exists_m(old(w).paths, self.key()) ==> r is Err,
            r is Ok ==> exists_m(old(w).paths, self.key()) && meta_of_node(r->Ok_0, old(w).paths[self.key()], old(w).files),
    { unimplemented!() }
    /// lstat(2)
    #[verifier::external_body]
    pub fn symlink_metadata(&self, Tracked(w): Tracked<&mut World>) -> (r: std::result::Result<Metadata, io::Error>)
        ensures fr_ro(*old(w), *final(w)),
            final(w).faults == old(w).faults + (if r is Err && old(w).paths.contains_key(self.key()) { 1nat } else { 0 }),
            !old(w).paths.contains_key(self.key()) ==> r is Err,
            r is Ok ==> old(w).paths.contains_key(self.key()) && r->Ok_0.spec_kind() == old(w).paths[self.key()].kind
                && r->Ok_0.spec_len() == old(w).paths[self.key()].size
                && (old(w).paths[self.key()].kind != NodeKind::Symlink ==> meta_of_node(r->Ok_0, old(w).paths[self.key()], old(w).files)),
    { unimplemented!() }
    /// `Path::canonicalize` = `fs::canonicalize(self)`: same contract as the free function below
    #[verifier::external_body]
    pub fn canonicalize(&self, Tracked(w): Tracked<&mut World>) -> (r: std::result::Result<Path, io::Error>)
        ensures fr_ro(*old(w), *final(w)), final(w).faults == old(w).faults + (if r is Err { 1nat } else { 0 }),
            r is Ok ==> exists_m(old(w).paths, self.key()) && exists_m(old(w).paths, r->Ok_0.key())
                && old(w).paths[r->Ok_0.key()].kind == old(w).paths[self.key()].tkind
                && old(w).paths[r->Ok_0.key()].kind != NodeKind::Symlink
                && old(w).paths[r->Ok_0.key()].inode == old(w).paths[self.key()].inode,
    { unimplemented!() }
    #[verifier::external_body]
    pub fn exists(&self, Tracked(w): Tracked<&World>) -> (r: bool)
        ensures r == exists_m(w.paths, self.key()), r ==> w.files.contains_key(w.paths[self.key()].inode),
    { unimplemented!() }
    #[verifier::external_body]
    pub fn is_dir(&self, Tracked(w): Tracked<&World>) -> (r: bool)
        ensures r == is_dir_m(w.paths, self.key()),
    { unimplemented!() }
    #[verifier::external_body]
    pub fn is_file(&self, Tracked(w): Tracked<&World>) -> (r: bool)
        ensures r == (exists_m(w.paths, self.key()) && w.paths[self.key()].tkind == NodeKind::File),
    { unimplemented!() }
    #[verifier::external_body]
    pub fn is_symlink(&self, Tracked(w): Tracked<&World>) -> (r: bool)
        ensures r == (w.paths.contains_key(self.key()) && w.paths[self.key()].kind == NodeKind::Symlink),
    { unimplemented!() }
}

impl File {
    /// File::options() is OpenOptions::new()
    pub fn options() -> (r: OpenOptions) ensures !r.rd && !r.wr && !r.cr && !r.tr && !r.ap && !r.cn && r.md is None { OpenOptions::new() }
    /// open(O_RDONLY): follows links
    #[verifier::external_body]
    pub fn open(p: &Path, Tracked(w): Tracked<&mut World>) -> (r: std::result::Result<File, io::Error>)
        ensures fr_data(*old(w), *final(w)), final(w).eintr_left == old(w).eintr_left, final(w).files == old(w).files,
            match r {
                Ok(f) => {
                    &&& final(w).faults == old(w).faults
                    &&& exists_m(old(w).paths, p.key()) && f.inode() == old(w).paths[p.key()].inode
                    &&& old(w).files.contains_key(f.inode())
                    &&& !old(w).cursor.contains_key(f.id()) && final(w).cursor == old(w).cursor.insert(f.id(), 0)
                    &&& final(w).trace == old(w).trace.push(Event::Open(p.key()))
                },
                Err(_) => final(w).faults == old(w).faults + 1 && final(w).cursor == old(w).cursor && final(w).trace == old(w).trace,
            },
    { unimplemented!() }

    /// open(O_WRONLY|O_CREAT|O_TRUNC): follows links; an existing object is truncated *in place*
    /// (so whatever else designates that inode sees the truncation).
    #[verifier::external_body]
    pub fn create(p: &Path, Tracked(w): Tracked<&mut World>) -> (r: std::result::Result<File, io::Error>)
        ensures
            final(w).eexist == old(w).eexist && final(w).errno == old(w).errno && final(w).eintr_left == old(w).eintr_left && final(w).tolerated == old(w).tolerated
                && final(w).errors_sent == old(w).errors_sent && final(w).announced == old(w).announced && final(w).reported == old(w).reported,
            match r {
                Ok(f) => {
                    let k = p.key(); let i = f.inode();
                    &&& final(w).faults == old(w).faults
                    &&& !old(w).cursor.contains_key(f.id()) && final(w).cursor == old(w).cursor.insert(f.id(), 0)
                    &&& final(w).trace == old(w).trace.push(Event::CreateTrunc(k, i))
                    &&& (exists_m(old(w).paths, k) ==> {
                            &&& i == old(w).paths[k].inode && final(w).paths == old(w).paths
                            &&& final(w).files == old(w).files.insert(i, fs_truncate(old(w).files[i], 0))
                        })
                    &&& (!exists_m(old(w).paths, k) ==> {
                            &&& !old(w).files.contains_key(i)
                            &&& final(w).paths == old(w).paths.insert(k, Node { kind: if old(w).paths.contains_key(k) { old(w).paths[k].kind } else { NodeKind::File },
                                    inode: i, reach: true, tkind: NodeKind::File, ..final(w).paths[k] })
                            &&& final(w).files == old(w).files.insert(i, final(w).files[i])
                            &&& final(w).files[i].bytes.len() == 0 && final(w).files[i].data == ISet::<int>::empty()
                            &&& final(w).files[i].mode == default_mode()
                            // a dangling link stays the entry it was (the new file appears where it points); a new name is a new entry
                            &&& (old(w).paths.contains_key(k) ==> final(w).paths[k].entry == old(w).paths[k].entry && final(w).paths[k].link == old(w).paths[k].link)
                            &&& (!old(w).paths.contains_key(k) ==> forall|k2: PathKey| #[trigger] old(w).paths.contains_key(k2) ==> old(w).paths[k2].entry != final(w).paths[k].entry)
                        })
                },
                Err(_) => final(w).faults == old(w).faults + 1 && final(w).files == old(w).files && final(w).paths == old(w).paths
                    && final(w).cursor == old(w).cursor && final(w).trace == old(w).trace,
            },
    { unimplemented!() }
}

pub mod fs {
    use super::*;
    pub use super::fs_filetype::FileType;
    pub use super::fs_more::{metadata, symlink_metadata, create_dir, set_permissions, hard_link, remove_dir, remove_dir_all, copy};
    pub use super::{remove_file, create_dir_all, read_link, canonicalize, File, Permissions, OpenOptions};
    /// rename(2): the *entry* moves: every spelling of the old entry stops resolving, `b` now designates the object; inodes and contents untouched.
    /// (Two spellings of one entry necessarily reach the same inode.)
    #[verifier::external_body]
    pub fn rename<B: PathLike>(a: &Path, b: B, Tracked(w): Tracked<&mut World>) -> (r: std::result::Result<(), io::Error>)
        ensures final(w).files == old(w).files, final(w).cursor == old(w).cursor, final(w).eexist == old(w).eexist,
            final(w).errno == old(w).errno && final(w).eintr_left == old(w).eintr_left && final(w).tolerated == old(w).tolerated
                && final(w).errors_sent == old(w).errors_sent && final(w).announced == old(w).announced && final(w).reported == old(w).reported,
            forall|k: PathKey| #[trigger] old(w).paths.contains_key(k) && old(w).paths.contains_key(a.key()) && old(w).paths[k].entry == old(w).paths[a.key()].entry
                ==> old(w).paths[k].inode == old(w).paths[a.key()].inode,
            match r {
                Ok(_) => {
                    &&& final(w).faults == old(w).faults
                    &&& old(w).paths.contains_key(a.key())
                    &&& final(w).paths.contains_key(b.pkey()) && final(w).paths[b.pkey()] == old(w).paths[a.key()]
                    &&& (forall|k: PathKey| k != b.pkey() ==> (#[trigger] final(w).paths.contains_key(k) <==> (old(w).paths.contains_key(k) && old(w).paths[k].entry != old(w).paths[a.key()].entry)))
                    &&& (forall|k: PathKey| k != b.pkey() && #[trigger] final(w).paths.contains_key(k) ==> final(w).paths[k] == old(w).paths[k])
                    &&& final(w).trace == old(w).trace.push(Event::Rename(a.key(), b.pkey()))
                },
                Err(_) => final(w).faults == old(w).faults + 1 && final(w).paths == old(w).paths && final(w).trace == old(w).trace,
            },
    { unimplemented!() }
}

/// effects on the namespace only: files, cursors and counters other than faults are untouched
pub open spec fn fr_ns(a: World, b: World) -> bool {
    a.files == b.files && a.cursor == b.cursor
    && a.errno == b.errno && a.eintr_left == b.eintr_left && a.tolerated == b.tolerated
    && a.errors_sent == b.errors_sent && a.announced == b.announced && a.reported == b.reported
}

/// unlink(2): removes the directory *entry*; every spelling that designates that entry stops resolving, everything else is untouched.
/// (Two spellings of one entry necessarily reach the same inode.)
#[verifier::external_body]
pub fn remove_file(p: &Path, Tracked(w): Tracked<&mut World>) -> (r: std::result::Result<(), io::Error>)
    ensures fr_ns(*old(w), *final(w)), final(w).eexist == old(w).eexist,
        forall|k: PathKey| #[trigger] old(w).paths.contains_key(k) && old(w).paths.contains_key(p.key()) && old(w).paths[k].entry == old(w).paths[p.key()].entry
            ==> old(w).paths[k].inode == old(w).paths[p.key()].inode && old(w).paths[k].reach == old(w).paths[p.key()].reach && old(w).paths[k].kind == old(w).paths[p.key()].kind,
        match r {
            Ok(_) => {
                &&& final(w).faults == old(w).faults && old(w).paths.contains_key(p.key())
                &&& (forall|k: PathKey| #[trigger] final(w).paths.contains_key(k) <==> (old(w).paths.contains_key(k) && old(w).paths[k].entry != old(w).paths[p.key()].entry))
                &&& (forall|k: PathKey| #[trigger] final(w).paths.contains_key(k) ==> final(w).paths[k] == old(w).paths[k])
                &&& final(w).trace == old(w).trace.push(Event::Remove(p.key()))
            },
            Err(_) => final(w).faults == old(w).faults + 1 && final(w).paths == old(w).paths && final(w).trace == old(w).trace,
        },
{ unimplemented!() }

/// symlink(2): fails with EEXIST when `at` exists
#[verifier::external_body]
pub fn symlink(text: &Path, at: &Path, Tracked(w): Tracked<&mut World>) -> (r: std::result::Result<(), io::Error>)
    ensures fr_ns(*old(w), *final(w)), final(w).eexist == old(w).eexist + (if r is Err && old(w).paths.contains_key(at.key()) { 1nat } else { 0 }),
        old(w).paths.contains_key(at.key()) ==> r is Err,
        match r {
            Ok(_) => {
                &&& final(w).faults == old(w).faults && !old(w).paths.contains_key(at.key())
                &&& final(w).paths == old(w).paths.insert(at.key(), final(w).paths[at.key()])
                &&& final(w).paths[at.key()].kind == NodeKind::Symlink && final(w).paths[at.key()].link == text.key()
                &&& final(w).trace == old(w).trace.push(Event::Symlink(text.key(), at.key()))
            },
            Err(_) => final(w).faults == old(w).faults + 1 && final(w).paths == old(w).paths && final(w).trace == old(w).trace,
        },
{ unimplemented!() }

#[verifier::external_body]
pub fn create_dir_all(p: &Path, Tracked(w): Tracked<&mut World>) -> (r: std::result::Result<(), io::Error>)
    ensures fr_ns(*old(w), *final(w)), final(w).eexist == old(w).eexist,
        match r {
            Ok(_) => {
                &&& final(w).faults == old(w).faults && is_dir_m(final(w).paths, p.key())
                &&& (forall|k: PathKey| #[trigger] old(w).paths.contains_key(k) ==> final(w).paths.contains_key(k) && final(w).paths[k] == old(w).paths[k])
                &&& final(w).trace == old(w).trace.push(Event::Mkdir(p.key()))
            },
            Err(_) => final(w).faults == old(w).faults + 1 && final(w).trace == old(w).trace
                && (forall|k: PathKey| #[trigger] old(w).paths.contains_key(k) ==> final(w).paths.contains_key(k) && final(w).paths[k] == old(w).paths[k]),
        },
{ unimplemented!() }

#[verifier::external_body]
pub fn read_link<P: PathLike>(p: P, Tracked(w): Tracked<&mut World>) -> (r: std::result::Result<Path, io::Error>)
    // ENOENT (nothing there) and EINVAL (not a link) are answers, not faults: the same rule as for stat/lstat
    ensures fr_ro(*old(w), *final(w)),
        final(w).faults == old(w).faults + (if r is Err && old(w).paths.contains_key(p.pkey()) && old(w).paths[p.pkey()].kind == NodeKind::Symlink { 1nat } else { 0 }),
        !(old(w).paths.contains_key(p.pkey()) && old(w).paths[p.pkey()].kind == NodeKind::Symlink) ==> r is Err,
        r is Ok ==> old(w).paths.contains_key(p.pkey()) && old(w).paths[p.pkey()].kind == NodeKind::Symlink && r->Ok_0.key() == old(w).paths[p.pkey()].link,
{ unimplemented!() }

/// realpath(3): the result designates the object the links lead to, and is not itself a link
#[verifier::external_body]
pub fn canonicalize(p: &Path, Tracked(w): Tracked<&mut World>) -> (r: std::result::Result<Path, io::Error>)
    ensures fr_ro(*old(w), *final(w)), final(w).faults == old(w).faults + (if r is Err { 1nat } else { 0 }),
        r is Ok ==> exists_m(old(w).paths, p.key()) && exists_m(old(w).paths, r->Ok_0.key())
            && old(w).paths[r->Ok_0.key()].kind == old(w).paths[p.key()].tkind
            && old(w).paths[r->Ok_0.key()].kind != NodeKind::Symlink
            && old(w).paths[r->Ok_0.key()].inode == old(w).paths[p.key()].inode,
{ unimplemented!() }

// ---------------------------------------------------------------- rustix::fs node creation
/// rustix's RawMode is an alias of u32 and `RawMode::from(x)` the identity conversion; a newtype here, because
/// vstd has no specification for the reflexive `impl From<T> for T`.
#[derive(Clone, Copy)]
pub struct RawMode(pub u32);
impl From<u32> for RawMode { fn from(m: u32) -> (r: RawMode) { RawMode(m) } }
impl vstd::std_specs::convert::FromSpecImpl<u32> for RawMode {
    open spec fn obeys_from_spec() -> bool { true }
    open spec fn from_spec(m: u32) -> RawMode { RawMode(m) }
}
/// `rmode & mask` on the alias is u32's `&`
impl std::ops::BitAnd<u32> for RawMode {
    type Output = RawMode;
    fn bitand(self, rhs: u32) -> (r: RawMode) { RawMode(self.0 & rhs) }
}
impl vstd::std_specs::ops::BitAndSpecImpl<u32> for RawMode {
    open spec fn obeys_bitand_spec() -> bool { true }
    open spec fn bitand_req(self, rhs: u32) -> bool { true }
    open spec fn bitand_spec(self, rhs: u32) -> RawMode { RawMode(self.0 & rhs) }
}
pub struct Mode { pub bits: u32 }
impl Mode {
    /// `Mode::from_raw_mode` = from_bits_truncate: keeps the permission bits only
    #[verifier::external_body]
    pub fn from_raw_mode(m: RawMode) -> (r: Mode) ensures r.bits == mode_perm(m.0) { unimplemented!() }
}
pub mod rustix_fs {
    use super::*;
    /// rustix::fs::FileType
    pub struct FileType { pub k: NodeKind }
    impl FileType {
        #[verifier::external_body]
        pub fn from_raw_mode(m: RawMode) -> (r: FileType) ensures r.k == mode_kind(m.0) { unimplemented!() }
    }
}
pub struct Cwd { }
pub const CWD: Cwd = Cwd { };

/// K-mknod: mknodat(2); EEXIST if present.  The kernel masks `mode` with the umask (not modelled: the event records the mode passed).
#[verifier::external_body]
pub fn mknodat(dirfd: Cwd, p: &Path, ftype: rustix_fs::FileType, mode: Mode, dev: u64, Tracked(w): Tracked<&mut World>) -> (r: std::result::Result<(), Errno>)
    ensures fr_ns(*old(w), *final(w)),
        final(w).eexist == old(w).eexist + (if r is Err && old(w).paths.contains_key(p.key()) { 1nat } else { 0 }),
        old(w).paths.contains_key(p.key()) ==> r is Err,
        match r {
            Ok(_) => {
                &&& final(w).faults == old(w).faults && !old(w).paths.contains_key(p.key())
                &&& final(w).paths == old(w).paths.insert(p.key(), final(w).paths[p.key()])
                &&& final(w).paths[p.key()].kind == ftype.k && final(w).paths[p.key()].tkind == ftype.k && final(w).paths[p.key()].reach
                &&& final(w).paths[p.key()].rdev == dev
                &&& final(w).trace == old(w).trace.push(Event::Mknod(p.key(), ftype.k, mode.bits, dev))
            },
            Err(_) => final(w).faults == old(w).faults + 1 && final(w).paths == old(w).paths && final(w).trace == old(w).trace,
        },
{ unimplemented!() }

/// std::fs::OpenOptions (builder).  `open` follows links; O_CREAT creates a fresh empty file when the path does not resolve;
/// O_TRUNC empties the inode the path resolves to; without O_TRUNC an existing file keeps its content.
/// the mode a newly created file gets: 0666 masked by the process umask (an unknown constant), or the requested mode masked likewise
pub uninterp spec fn default_mode() -> u32;
pub uninterp spec fn created_mode(requested: u32) -> u32;
pub struct OpenOptions { pub rd: bool, pub wr: bool, pub cr: bool, pub tr: bool, pub ap: bool, pub cn: bool, pub md: Option<u32> }
impl OpenOptions {
    pub fn new() -> (r: OpenOptions) ensures !r.rd && !r.wr && !r.cr && !r.tr && !r.ap && !r.cn && r.md is None { OpenOptions { rd: false, wr: false, cr: false, tr: false, ap: false, cn: false, md: None } }
    pub fn read(self, v: bool) -> (r: OpenOptions) ensures r == (OpenOptions { rd: v, ..self }) { OpenOptions { rd: v, ..self } }
    pub fn write(self, v: bool) -> (r: OpenOptions) ensures r == (OpenOptions { wr: v, ..self }) { OpenOptions { wr: v, ..self } }
    pub fn create(self, v: bool) -> (r: OpenOptions) ensures r == (OpenOptions { cr: v, ..self }) { OpenOptions { cr: v, ..self } }
    pub fn truncate(self, v: bool) -> (r: OpenOptions) ensures r == (OpenOptions { tr: v, ..self }) { OpenOptions { tr: v, ..self } }
    pub fn append(self, v: bool) -> (r: OpenOptions) ensures r == (OpenOptions { ap: v, ..self }) { OpenOptions { ap: v, ..self } }
    pub fn create_new(self, v: bool) -> (r: OpenOptions) ensures r == (OpenOptions { cn: v, ..self }) { OpenOptions { cn: v, ..self } }
    /// std::os::unix::fs::OpenOptionsExt::mode
    pub fn mode(self, m: u32) -> (r: OpenOptions) ensures r == (OpenOptions { md: Some(m), ..self }) { OpenOptions { md: Some(m), ..self } }
    #[verifier::external_body]
    pub fn open(&self, p: &Path, Tracked(w): Tracked<&mut World>) -> (r: std::result::Result<File, io::Error>)
        ensures
            final(w).eexist == old(w).eexist && final(w).errno == old(w).errno && final(w).eintr_left == old(w).eintr_left && final(w).tolerated == old(w).tolerated
                && final(w).errors_sent == old(w).errors_sent && final(w).announced == old(w).announced && final(w).reported == old(w).reported,
            match r {
                Ok(f) => {
                    let k = p.key(); let i = f.inode();
                    &&& final(w).faults == old(w).faults
                    &&& !old(w).cursor.contains_key(f.id()) && final(w).cursor == old(w).cursor.insert(f.id(), 0)
                    &&& (exists_m(old(w).paths, k) ==> {
                            &&& !self.cn && i == old(w).paths[k].inode && final(w).paths == old(w).paths
                            &&& final(w).files == (if self.tr && self.wr { old(w).files.insert(i, fs_truncate(old(w).files[i], 0)) } else { old(w).files })
                            &&& final(w).trace == old(w).trace.push(if self.tr && self.wr { Event::CreateTrunc(k, i) } else { Event::Open(k) })
                        })
                    &&& (!exists_m(old(w).paths, k) ==> {
                            &&& (self.cr || self.cn) && !old(w).files.contains_key(i)
                            &&& final(w).paths == old(w).paths.insert(k, Node { kind: if old(w).paths.contains_key(k) { old(w).paths[k].kind } else { NodeKind::File },
                                    inode: i, reach: true, tkind: NodeKind::File, ..final(w).paths[k] })
                            &&& final(w).files == old(w).files.insert(i, final(w).files[i])
                            &&& final(w).files[i].bytes.len() == 0 && final(w).files[i].data == ISet::<int>::empty()
                            &&& final(w).files[i].mode == (if self.md is Some { created_mode(self.md->Some_0) } else { default_mode() })
                            &&& final(w).trace == old(w).trace.push(Event::CreateTrunc(k, i))
                        })
                },
                Err(_) => final(w).faults == old(w).faults + 1 && final(w).files == old(w).files && final(w).paths == old(w).paths
                    && final(w).cursor == old(w).cursor && final(w).trace == old(w).trace,
            },
    { unimplemented!() }
}
