// ---- prelude/root_27_xattr.rs: xattr crate stand-ins (TRUSTED).  Every failure here is *tolerated* by design
// of xcp (copy_permissions only warns), so failures bump `tolerated`, never `faults`.
#[verifier::external_body]
pub struct OsString { x: u8 }
impl OsString {
    pub uninterp spec fn name(&self) -> Seq<u8>;
    /// Some iff the bytes are valid UTF-8; then the same bytes
    #[verifier::external_body]
    pub fn to_str(&self) -> (r: Option<&str>)
        ensures (r is Some) == valid_utf8(self.name()), r is Some ==> str_bytes(r->Some_0) == self.name(),
    { unimplemented!() }
}
pub uninterp spec fn valid_utf8(b: Seq<u8>) -> bool;
pub uninterp spec fn str_bytes(s: &str) -> Seq<u8>;
/// anything the xattr crate accepts as an attribute name (AsRef<OsStr>)
pub trait XName { spec fn xname(&self) -> Seq<u8>; }
impl XName for OsString { open spec fn xname(&self) -> Seq<u8> { self.name() } }
impl XName for &OsString { open spec fn xname(&self) -> Seq<u8> { self.name() } }
impl XName for &str { open spec fn xname(&self) -> Seq<u8> { str_bytes(*self) } }

#[verifier::external_body]
pub struct XAttrs { x: u8 }
pub uninterp spec fn xattrs_remaining(it: &XAttrs) -> Seq<OsString>;
impl Iterator for XAttrs {
    type Item = OsString;
    #[verifier::external_body]
    fn next(&mut self) -> (r: Option<OsString>) { unimplemented!() }
}
impl vstd::std_specs::iter::IteratorSpecImpl for XAttrs {
    open spec fn obeys_prophetic_iter_laws(&self) -> bool { true }
    open spec fn remaining(&self) -> Seq<OsString> { xattrs_remaining(self) }
    open spec fn will_return_none(&self) -> bool { true }
    open spec fn decrease(&self) -> Option<nat> { Some(xattrs_remaining(self).len()) }
    open spec fn peek(&self, i: int) -> Option<OsString> { if 0 <= i < xattrs_remaining(self).len() { Some(xattrs_remaining(self)[i]) } else { None } }
}
pub open spec fn lists_all(names: Seq<OsString>, xs: Map<Seq<u8>, Seq<u8>>) -> bool {
    forall|n: Seq<u8>| xs.contains_key(n) ==> exists|i: int| 0 <= i < names.len() && (#[trigger] names[i]).name() == n
}

impl File {
    #[verifier::external_body]
    pub fn list_xattr(&self, Tracked(w): Tracked<&mut World>) -> (r: std::result::Result<XAttrs, io::Error>)
        ensures
            final(w).files == old(w).files && final(w).cursor == old(w).cursor && final(w).paths == old(w).paths && final(w).trace == old(w).trace
            && final(w).faults == old(w).faults && final(w).errno == old(w).errno && final(w).eintr_left == old(w).eintr_left
            && final(w).errors_sent == old(w).errors_sent && final(w).announced == old(w).announced && final(w).reported == old(w).reported,
            final(w).tolerated == old(w).tolerated + (if r is Err { 1nat } else { 0 }),
            r is Ok ==> lists_all(xattrs_remaining(&r->Ok_0), old(w).files[self.inode()].xattrs),
    { unimplemented!() }

    #[verifier::external_body]
    pub fn get_xattr<N: XName>(&self, name: N, Tracked(w): Tracked<&mut World>) -> (r: std::result::Result<Option<Vec<u8>>, io::Error>)
        ensures
            final(w).files == old(w).files && final(w).cursor == old(w).cursor && final(w).paths == old(w).paths && final(w).trace == old(w).trace
            && final(w).faults == old(w).faults && final(w).errno == old(w).errno && final(w).eintr_left == old(w).eintr_left
            && final(w).errors_sent == old(w).errors_sent && final(w).announced == old(w).announced && final(w).reported == old(w).reported,
            final(w).tolerated == old(w).tolerated + (if r is Err { 1nat } else { 0 }),
            r is Ok ==> ({
                let xs = old(w).files[self.inode()].xattrs;
                match r->Ok_0 { Some(v) => xs.contains_key(name.xname()) && v@ == xs[name.xname()], None => !xs.contains_key(name.xname()) }
            }),
    { unimplemented!() }

    #[verifier::external_body]
    pub fn set_xattr<N: XName>(&self, name: N, val: &[u8], Tracked(w): Tracked<&mut World>) -> (r: std::result::Result<(), io::Error>)
        ensures
            final(w).cursor == old(w).cursor && final(w).paths == old(w).paths
            && final(w).faults == old(w).faults && final(w).errno == old(w).errno && final(w).eintr_left == old(w).eintr_left
            && final(w).errors_sent == old(w).errors_sent && final(w).announced == old(w).announced && final(w).reported == old(w).reported,
            match r {
                Ok(_) => {
                    let i = self.inode(); let f = old(w).files[i];
                    &&& final(w).tolerated == old(w).tolerated
                    &&& final(w).files == old(w).files.insert(i, FileState { xattrs: f.xattrs.insert(name.xname(), val@), ..f })
                    &&& final(w).trace == old(w).trace.push(Event::SetXattr(i))
                },
                Err(_) => final(w).tolerated == old(w).tolerated + 1 && final(w).files == old(w).files && final(w).trace == old(w).trace,
            },
    { unimplemented!() }
}
