#!/usr/bin/env python3
"""writes MANIFEST.json from the table below (kept in one place so it stays valid)"""
import json, os
V = os.path.dirname(os.path.abspath(__file__))
TRUST = ("Trusted base: the system-call contracts of /verif/prelude (external_body stand-ins for std/rustix/libc/xattr, listed mechanically in "
         "evidence.coverage.trusted_base), the prelude type mirrors, the extractor/generator, Verus and Z3. Assumptions A-kernel, A-stable, A-pool, "
         "A-walk, A-ignore, A-drop, A-eintr, A-off_t, A-panic (DESIGN.md §6). unsafe fiemap and the FICLONE ioctl are trusted.")
CHECKS = {
 'C01': ('proof', "Verus discharges, for all file contents, sizes, block sizes, short-count patterns and errnos allowed by the assumed kernel contracts, that each data-path function under contract (libfs copy loops and wrappers, CopyHandle copy paths, parblock partitioning and block job) returns Ok only after exactly the source bytes are at exactly the right offsets of the destination, with everything else of the destination untouched. Conditional on the kernel contracts and on the thread pool running every job (assumed).", '§5 C01'),
 'C02': ('proof', "Verus proves, on the whole tree_walker (no walk error swallowed), on its slices (per source: the target base; per walked entry: the body of the walk loop), on the per-operation slices of both workers and on the option-to-config mapping: cp's path-mapping rule, the dispatch by kind (file -> Size then Copy, symlink -> Link with the read_link text, dir -> create_dir_all in the walker, with --dereference no Link is queued), and that a Link operation creates a symlink with exactly that text. Partial: that WalkDir delivers every entry once is assumed (walk_seq); slices are hand-declared wrappers around verbatim statement ranges.", '§5 C02'),
 'C03': ('proof', "Frame clauses proved by Verus on every function of the copy path: no inode other than the destination's changes, sources are opened read-only, and CopyHandle::new refuses a destination that designates the source inode under any alias. Partial: kill points are argued from per-call frames, bystanders outside the modelled calls are not covered.", '§5 C03'),
 'C04': ('proof', "Error-flow contract proved by Verus for every function under contract: if a required system call failed (ghost fault counter grew) the function returns Err or has sent an Error update; Driver::copy of both drivers joins every spawned thread and drops no panic or error result; main's run phase returns Ok only if no Error update was received and the driver call returned Ok; the walker never swallows a walk error. Partial: one open finding (F4: finalisation errors are only logged in Drop); the thread pool is assumed to run every job.", '§5 C04'),
 'C05': ('proof', "Same obligations as C01, for the clauses whose proof uses the permissive parts of the kernel contracts: every legal short return of copy_file_range/read/pread/write/pwrite, ENOSYS/EXDEV/EPERM fallbacks, EINTR retry, FIEMAP/FICLONE unsupported.", '§5 C05'),
 'C07': ('proof', "Termination (decreases clauses) of every loop in the functions under contract, proved by Verus under the kernel progress clauses; both drivers hand the walker an unbounded work queue, so it cannot block on workers that have exited. Partial: deadlock freedom of the pool, the joins and the update channel in general is not decided.", '§5 C07'),
 'C08': ('proof', "Verus proves on the walker's per-entry slice that with no-clobber an existing target yields Err with nothing queued or created, and on both workers' per-operation slices that an existing special-file destination is left alone and fails. Partial: interleavings of the walker's check with the workers are not decided.", '§5 C08'),
 'C09': ('proof', "Verus proves on CopyHandle::new and needs_backup that with numbered backups an existing destination is renamed to a name that did not exist before the destination is re-created, that its inode is untouched, and that without a backup mode nothing is renamed. The choice of the backup name (string/regex/ReadDir code in backup.rs) is outside Verus: it is checked by a BOUNDED exhaustive enumeration on the real functions (stated bound, labelled bounded, not counted as proved).", '§5 C09'),
 'C10': ('proof', "Verus proves finalise_copy and the libfs metadata helpers against fchmod/futimens/fchown/fsync/xattr stand-ins: exact mode (incl. set-ID bits after chown), ns-exact times, xattrs, owner, and that disabled attributes cause no event.", '§5 C10'),
 'C11': ('proof', "Write-footprint postconditions proved by Verus: both drivers write only inside source data ranges (plus merge gaps); the destination is sized with ftruncate, not writes. Whether the filesystem then allocates is the kernel's business.", '§5 C11'),
 'C12': ('proof', "Verus proves that the sizes announced by the walker sum to the total length of the regular files walked (whole tree_walker, recursive sum), that Size is sent immediately before the Copy is queued, that every Copied(n) passed to the updater equals bytes actually transferred, and that ChannelUpdater batching never forwards more than it was given. Partial: channel closing and cross-thread order are not decided.", '§5 C12'),
 'C13': ('proof', "Verus proves on the whole tree_walker that the walk is built to follow links exactly when --dereference is set (so the contents of linked directories are walked, and loops arrive as error items, which are never swallowed), and on its per-entry slice that under --dereference no Link operation is ever queued, every entry is classified by what its canonical path leads to (file behind links -> Copy of the canonical path, directory behind links -> directory), and an entry that leads nowhere (dangling or cyclic link) makes the run fail; the option reaches the walker unchanged (Config::from). Partial: what walkdir delivers for a given follow_links setting is its documented behaviour, assumed (A-walk: walk_of(root, follow)); that a Copy transfers the referent's bytes is C01.", '§5 C13'),
 'C14': ('proof', "Verus proves copy_node issues exactly one mknod with the source's type, permission bits and device number (st_rdev), the FileType classification table, and the workers' replace/no-clobber logic for special files.", '§5 C14'),
 'C15': ('proof', "Verus proves the try_reflink mode table (never: no clone event; always: Ok only after a successful clone; auto: falls back), the FICLONE errno classification, and that the clone precedes any data copy in both drivers. That every spelling of --reflink=always/auto/never means that mode (string matching in Reflink::from_str, outside Verus) is checked by a BOUNDED exhaustive enumeration on the real function (labelled bounded, not counted as proved).", '§5 C15'),
 'C16': ('proof', "Verus proves on the validation range of main() (slice) that it has no effect on the file system model at all and that reaching the copy phase implies every rejection class main checks itself has been ruled out (no source, missing source, directory without recursive, several sources onto a non-directory, directory onto a file, source textually equal to destination or its target base); opts_check rejects force+no-clobber. That unknown --reflink/--backup/--driver values are rejected (FromStr impls, string matching outside Verus) and that under --glob a pattern selecting nothing is refused (expand_globs: iterator adapters over the glob crate) are checked by a BOUNDED enumeration on the real functions (labelled bounded). Partial: clap's parsing and the glob crate's matching are external.", '§5 C16'),
 'C17': ('proof', "Verus proves on xcp's own gitignore code (libxcp/src/paths.rs): without the option no matcher is built and the filter passes every entry; with it the matcher is anchored at the source root and reads exactly <source>/.gitignore; an entry passes iff the matcher does not exclude it when asked with the kind of the entry itself (directory-only patterns must not match a symbolic link to a directory). Partial: the matcher's pattern semantics (the `ignore` crate, assumed to be git's), that walkdir's filter_entry applies the filter to every entry and prunes beneath a rejected directory, and that a .gitignore that cannot be read is reported are not decided.", '§5 C17'),
 'C18': ('proof', "Verus proves fsync is the last event of finalisation when requested and absent otherwise; that it follows every data write of the handle rests on Rust drop/Arc semantics (assumed).", '§5 C10/C18'),
 'C19': ('proof', "Verus proves merge_extents coverage (every byte covered by the input is covered by the output) with explicit overflow obligations, map_extents completeness/order over any number of FIEMAP pages against the assumed FIEMAP contract, and the SEEK_DATA/SEEK_HOLE segment search, for all inputs with no bound.", '§5 C19'),
}
NA = {
 'C06': 'quantifies over thread interleavings; Kani has no threads and Verus would need the program rewritten around permission types (a model)',
 'C20': 'a bound on simultaneously open descriptors depends on the pool queue and the scheduler; no function-level contract expresses it',
}
def main():
    checks = []
    for pid in sorted(CHECKS):
        cat, text, ref = CHECKS[pid]
        checks.append({
            'property_id': pid,
            'quick_cmd': './check %s --tier quick' % pid,
            'thorough_cmd': './check %s --tier thorough' % pid,
            'evidence_file': '/verif/evidence/%s.json' % pid,
            'replay_cmd_template': './check replay {path}',
            'engine': 'verus',
            'level_claimed': {'category': cat, 'text': text, 'design_ref': ref},
            'level_note': TRUST,
            'technique': ('contract-based deductive verification (Verus) of functions re-extracted from /repo on every run'
                          + ('; backup-name code by bounded exhaustive enumeration on the real functions (labelled bounded)' if pid == 'C09' else '')
                          + ('; the option-value tables (FromStr impls, string matching) by bounded exhaustive enumeration on the real functions (labelled bounded)' if pid in ('C09', 'C15', 'C16') else '')
                          + ('; expand_globs by bounded exhaustive enumeration on the real function (labelled bounded)' if pid in ('C16', 'C02') else '')
                          + ('; Kani loop-free leaves on the compiled code in the thorough tier' if pid in ('C01', 'C05') else '')),
        })
    m = {
        'version': 1,
        'setup_cmd': 'python3 -m compileall -q vx && ./check selftest',
        'hooks': {'guard': 'tarka_xcp_verif', 'enable': 'none needed: both engines work on per-run extractions/copies of /repo, no source hooks',
                  'baseline_off_cmd': 'cd /repo && cargo nextest run --workspace --no-fail-fast --tool-config-file pb:/w/lib/nextest.toml --profile pb --test-threads 8 --offline || cargo test --workspace --no-fail-fast --offline',
                  'source_commits': [], 'add_only': True},
        'engines': [{'name': 'verus', 'path': '/verif/vx', 'serves_properties': sorted(CHECKS), 'kind_free_text': 'Verus 0.2026.09.13 single-file mode on gen.rs = prelude + contracts + function bodies re-extracted from /repo'}],
        'checks': checks,
        'not_applicable': [{'property_id': k, 'reason': v} for k, v in sorted(NA.items()) if k not in CHECKS],
        'notes': 'Genuine defects found and repaired are listed in known_findings.json (fix: commits in /repo). Exit 2 = undecided (lost anchor, tool error, resource limit), never an alarm.',
    }
    with open(os.path.join(V, 'MANIFEST.json'), 'w') as f:
        json.dump(m, f, indent=1)
main()
