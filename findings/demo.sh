#!/bin/bash
# Real-code demonstrations of the genuine defects found by the contract checks (DESIGN.md §8).
# usage: demo.sh <xcp-binary> <F1..F15>      exit 0 = behaviour correct, exit 1 = defect shown
X=$1; WHICH=$2
D=$(mktemp -d /tmp/xcpdemo.XXXXXX); trap 'rm -rf "$D"' EXIT; cd "$D" || exit 2
case "$WHICH" in
F1) # parblock: a single copy_file_range per block; the kernel caps one call at 2 GiB - 4 KiB
    head -c 2600000000 /dev/urandom > big
    "$X" --driver parblock --no-progress big copy >/dev/null 2>&1; rc=$?
    if [ $rc -eq 0 ] && ! cmp -s big copy; then echo "DEFECT F1: exit 0 but $(cmp big copy 2>&1 | head -1)"; exit 1; fi
    echo "F1 ok (rc=$rc)"; exit 0;;
F2) # parfile: result of symlink() discarded -> stale link survives, exit 0
    mkdir src dst; ln -s target1 src/l; "$X" -r src dst >/dev/null 2>&1
    ln -sfn target2 src/l; "$X" -r src dst >/dev/null 2>&1; rc=$?
    if [ $rc -eq 0 ] && [ "$(readlink dst/src/l)" != "target2" ]; then echo "DEFECT F2: exit 0, dst link -> $(readlink dst/src/l), src link -> target2"; exit 1; fi
    echo "F2 ok (rc=$rc)"; exit 0;;
F3) # copy_node passed st_dev instead of st_rdev (needs root)
    mknod chr c 1 3 || { echo "F3 skipped: mknod not permitted"; exit 0; }
    "$X" chr out >/dev/null 2>&1; rc=$?
    if [ $rc -eq 0 ] && [ "$(stat -c %t:%T out)" != "1:3" ]; then echo "DEFECT F3: device 1:3 copied as $(stat -c %t:%T out)"; exit 1; fi
    echo "F3 ok (rc=$rc)"; exit 0;;
F5) # destination aliases the source: create+truncate zeroes the source
    bad=0
    printf 'hello world\n' > f; "$X" f ./f >/dev/null 2>&1
    [ "$(cat f)" = "hello world" ] || { echo "DEFECT F5: 'xcp f ./f' left f as: $(xxd -p f | head -c 40)"; bad=1; }
    printf 'hello world\n' > g; ln g h; "$X" g h >/dev/null 2>&1
    [ "$(cat g)" = "hello world" ] || { echo "DEFECT F5: hard link self-copy left g as: $(xxd -p g | head -c 40)"; bad=1; }
    printf 'hello world\n' > i; ln -s i j; "$X" i j >/dev/null 2>&1
    [ "$(cat i)" = "hello world" ] || { echo "DEFECT F5: symlink self-copy left i as: $(xxd -p i | head -c 40)"; bad=1; }
    [ $bad -eq 0 ] && echo "F5 ok"; exit $bad;;
F6) # chown after chmod drops set-ID bits (needs root)
    printf x > s; chown 1000:1000 s 2>/dev/null || { echo "F6 skipped: chown not permitted"; exit 0; }
    chmod 4755 s; "$X" --ownership s s2 >/dev/null 2>&1; rc=$?
    if [ $rc -eq 0 ] && [ "$(stat -c %a s2)" != "4755" ]; then echo "DEFECT F6: mode 4755 copied as $(stat -c %a s2)"; exit 1; fi
    echo "F6 ok (rc=$rc)"; exit 0;;
F4) # finalisation errors are only logged (Drop): injected EIO on fchmod -> exit 0 with the wrong mode
    command -v strace >/dev/null || { echo "F4 skipped: no strace"; exit 0; }
    printf hi > a; chmod 600 a
    strace -f -o /dev/null -e trace=fchmod -e inject=fchmod:error=EIO "$X" a b >/dev/null 2>&1; rc=$?
    if [ $rc -eq 0 ] && [ "$(stat -c %a b)" != "600" ]; then echo "DEFECT F4: fchmod failed with EIO, exit 0, mode 600 copied as $(stat -c %a b)"; exit 1; fi
    echo "F4 ok (rc=$rc)"; exit 0;;
F7) # numbered backups of a non-UTF-8 name restart at 1 and replace the existing backup
    N=$'f\xff'; mkdir s d
    for v in v1 v2 v3 v4; do printf $v > "s/$N"; "$X" -r --backup=numbered s d >/dev/null 2>&1; done
    if [ "$(cat "d/s/$N.~1~" 2>/dev/null)" != "v1" ] || [ ! -f "d/s/$N.~3~" ]; then echo "DEFECT F7: after 4 copies backups are: $(ls d/s | cat -v | tr '\n' ' ') and .~1~ holds $(cat "d/s/$N.~1~")"; exit 1; fi
    echo "F7 ok"; exit 0;;
F8) # special file copied onto itself through another spelling: the worker removed the source
    mkfifo p; "$X" p ./p >/dev/null 2>&1
    if [ ! -p p ]; then echo "DEFECT F8: 'xcp p ./p' removed the FIFO p"; exit 1; fi
    echo "F8 ok"; exit 0;;
F9) # backup counter wrap-around (needs a build without overflow checks, i.e. a release binary; a debug binary of the old tree panics instead)
    echo new > src.txt; echo old > dst.txt; echo bakMAX > 'dst.txt.~18446744073709551615~'; echo bak0 > 'dst.txt.~0~'
    "$X" --backup=numbered src.txt dst.txt >/dev/null 2>&1; rc=$?
    if [ "$(cat 'dst.txt.~0~')" != "bak0" ]; then echo "DEFECT F9: existing backup dst.txt.~0~ was replaced (exit $rc)"; exit 1; fi
    if [ "$(cat 'dst.txt.~18446744073709551615~')" != "bakMAX" ]; then echo "DEFECT F9: existing backup .~MAX~ was replaced (exit $rc)"; exit 1; fi
    echo "F9 ok (exit $rc, existing backups untouched)"; exit 0;;
F10) # a directory copied onto itself through another spelling: the walker recursed into its own output
    mkdir d; echo x > d/f; ln -s d lnk
    for dst in ./d d/../d lnk; do
        timeout 120 "$X" -r d "$dst" >/dev/null 2>&1; rc=$?
        n=$(find d | wc -l)
        if [ "$n" != 2 ] || [ $rc = 0 ]; then echo "DEFECT F10: 'xcp -r d $dst' exit $rc left $n entries under d (expected 2 and a refusal)"; exit 1; fi
    done
    echo "F10 ok"; exit 0;;
F11) # a source that ends in `..`: entries were created beside the destination instead of inside it
    mkdir -p top/a/b top/out; echo x > top/a/f
    ( cd top/a/b && timeout 120 "$X" -r .. ../../out >/dev/null 2>&1 ); rc=$?
    if [ -e top/f ] || [ -e top/b ]; then echo "DEFECT F11: 'xcp -r .. ../../out' (exit $rc) created entries in the parent of the destination: $(ls top | tr '\n' ' ')"; exit 1; fi
    if [ $rc = 0 ] && { [ ! -f top/out/f ] || [ ! -d top/out/b ]; }; then echo "DEFECT F11: exit 0 but the tree is not inside the destination"; exit 1; fi
    echo "F11 ok (exit $rc)"; exit 0;;
F12) # --dereference: a link to a directory became an empty directory
    mkdir -p s/d out; echo x > s/d/f; ln -s d s/l
    timeout 120 "$X" -r -L s out >/dev/null 2>&1; rc=$?
    if [ $rc = 0 ] && [ ! -f out/s/l/f ]; then echo "DEFECT F12: 'xcp -r -L s out' exit 0 but out/s/l has no f: $(find out | sort | tr '\n' ' ')"; exit 1; fi
    if [ -L out/s/l ]; then echo "DEFECT F12: out/s/l is still a link"; exit 1; fi
    echo "F12 ok (exit $rc)"; exit 0;;
F13) # --gitignore: a directory-only pattern excluded a symbolic link to a directory (git does not)
    mkdir -p src/real out; echo x > src/real/f; ln -s real src/build; printf 'build/\n' > src/.gitignore
    timeout 120 "$X" -r --gitignore src out >/dev/null 2>&1; rc=$?
    if [ $rc = 0 ] && [ ! -L out/src/build ]; then echo "DEFECT F13: link 'build' (-> real/) was excluded by the pattern 'build/': $(ls -A out/src | tr '\n' ' ')"; exit 1; fi
    echo "F13 ok (exit $rc)"; exit 0;;
F14) # --glob: a pattern that matches nothing was dropped silently among valid ones
    mkdir out; echo a > a
    timeout 120 "$X" -g a missing out >/dev/null 2>&1; rc=$?
    if [ $rc = 0 ] || [ -e out/a ]; then echo "DEFECT F14: 'xcp -g a missing out' exit $rc, out: $(ls out | tr '\n' ' ')(expected a refusal with nothing copied)"; exit 1; fi
    echo "F14 ok (exit $rc)"; exit 0;;
F15) # --gitignore: a pattern equal to the source directory's own name pruned the whole tree
    mkdir -p mydir/sub out; echo a > mydir/a; echo b > mydir/sub/b; printf 'mydir\n' > mydir/.gitignore
    timeout 120 "$X" -r --gitignore mydir out >/dev/null 2>&1; rc=$?
    if [ $rc = 0 ] && { [ ! -f out/mydir/a ] || [ ! -f out/mydir/sub/b ]; }; then echo "DEFECT F15: exit 0 but nothing of mydir was copied: $(find out | sort | tr '\n' ' ')"; exit 1; fi
    echo "F15 ok (exit $rc)"; exit 0;;
*) echo "unknown finding $WHICH"; exit 2;;
esac
