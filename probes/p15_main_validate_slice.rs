use vstd::prelude::*;
macro_rules! info { ($($t:tt)*) => { () } }
verus! {
#[verifier::external_body] pub struct PathBuf { x: u8 }
#[verifier::external_body] pub struct Component { x: u8 }
#[verifier::external_body] pub struct AnyErr { x: u8 }
pub type Result<T, E = AnyErr> = std::result::Result<T, E>;
pub enum XcpError { InvalidArguments(String), InvalidSource(&'static str), InvalidDestination(&'static str) }
impl From<XcpError> for AnyErr { #[verifier::external_body] fn from(e: XcpError) -> AnyErr { unimplemented!() } }
pub assume_specification<T> [<[T]>::split_last] (s: &[T]) -> (r: std::option::Option<(&T, &[T])>)
    ensures match r { None => s@.len() == 0, Some((l, rest)) => s@.len() > 0 && *l == s@[s@.len() - 1] && rest@ == s@.take(s@.len() - 1) };
pub struct World { pub mutations: nat }
impl PathBuf {
    #[verifier::external_body] pub fn from(s: &String) -> PathBuf { unimplemented!() }
    #[verifier::external_body] pub fn is_dir(&self) -> bool { unimplemented!() }
    #[verifier::external_body] pub fn exists(&self) -> bool { unimplemented!() }
    #[verifier::external_body] pub fn join(&self, c: Component) -> PathBuf { unimplemented!() }
    #[verifier::external_body] pub fn to_path_buf(&self) -> PathBuf { unimplemented!() }
    #[verifier::external_body] pub fn last_component(&self) -> Option<Component> { unimplemented!() }
}
impl PartialEq for PathBuf { #[verifier::external_body] fn eq(&self, o: &PathBuf) -> bool { unimplemented!() } }
pub struct Opts { pub target_directory: Option<String>, pub paths: Vec<String>, pub recursive: bool, pub no_target_directory: bool }
#[verifier::external_body] fn expand_sources(source_list: &[String], opts: &Opts) -> Result<Vec<PathBuf>> { unimplemented!() }
#[verifier::external_body] fn opaque_string() -> String { unimplemented!() }

fn main_validate(opts: &Opts) -> (r: Result<(Vec<PathBuf>, PathBuf)>)
{
    let (dest, source_patterns) = match opts.target_directory {
        Some(ref d) => { (d, opts.paths.as_slice()) }
        None => {
            opts.paths.split_last().ok_or(XcpError::InvalidArguments(opaque_string()))?
        }
    };
    let dest = PathBuf::from(dest);

    let sources = expand_sources(source_patterns, &opts)?;
    if sources.is_empty() {
        return Err(XcpError::InvalidSource("No source files found.").into());
    } else if !dest.is_dir() {
        if sources.len() == 1 && sources[0].is_dir() && dest.exists() {
            return Err(XcpError::InvalidDestination("Cannot copy a directory to a file.").into());
        } else if sources.len() > 1 {
            return Err(XcpError::InvalidDestination("Multiple sources and destination is not a directory.").into());
        }
    }

    // Sanity-check all sources up-front
    for source in &sources {
        info!("Copying source {:?} to {:?}", source, dest);
        if !source.exists() {
            return Err(XcpError::InvalidSource("Source does not exist.").into());
        }

        if source.is_dir() && !opts.recursive {
            return Err(XcpError::InvalidSource("Source is directory and --recursive not specified.").into());
        }
        if source == &dest {
            return Err(XcpError::InvalidSource("Cannot copy a directory into itself").into());
        }
    }
    Ok((sources, dest))
}
}
fn main(){}
