use vstd::prelude::*;
macro_rules! error { ($($t:tt)*) => { () } }
macro_rules! format { ($($t:tt)*) => { opaque_string() } }
verus! {
#[verifier::external_body] pub fn opaque_string() -> String { String::new() }
pub struct World { pub faults: nat, pub errors: nat }
pub struct H { pub a: u8 }
impl H {
    #[verifier::external_body]
    fn finalise_copy(&self, Tracked(w): Tracked<&mut World>) -> (r: Result<(), u8>)
        ensures r is Err <==> final(w).faults == old(w).faults + 1, r is Ok ==> final(w).faults == old(w).faults, final(w).errors == old(w).errors
    { unimplemented!() }

    fn drop__extracted(&mut self, Tracked(w): Tracked<&mut World>)
        ensures final(w).faults > old(w).faults ==> final(w).errors > old(w).errors
    {
        // FIXME: Should we check for panicking() here?
        if let Err(e) = self.finalise_copy(Tracked(w)) {
            error!("Error during finalising copy operation {:?} -> {:?}: {}", self.infd, self.outfd, e);
            let s = format!("x {}", 1);
        }
    }
}
}
fn main(){}
