use vstd::prelude::*;
use std::sync::Arc;
macro_rules! info { ($($t:tt)*) => { () } }
verus! {
// ---------- prelude sketch ----------
pub type Inode = int;
pub struct FileState { pub bytes: Seq<u8> }
pub enum Event { Open(PathKey), Rename(PathKey, PathKey), CreateTrunc(PathKey), Ftruncate(Inode, nat) }
pub type PathKey = Seq<u8>;
pub struct World {
    pub files: Map<Inode, FileState>,
    pub paths: Map<PathKey, Inode>,
    pub trace: Seq<Event>,
    pub faults: nat,
}
#[verifier::external_body] pub struct Path { x: u8 }
#[verifier::external_body] pub struct PathBuf { x: u8 }
impl Path { pub uninterp spec fn key(&self) -> PathKey; }
impl PathBuf { pub uninterp spec fn key(&self) -> PathKey; }
#[verifier::external_body] pub struct File { x: u8 }
#[verifier::external_body] pub struct Metadata { x: u8 }
#[verifier::external_body] pub struct IoError { x: u8 }
#[verifier::external_body] pub struct AnyErr { x: u8 }
pub type Result<T, E = AnyErr> = std::result::Result<T, E>;
impl From<IoError> for AnyErr { #[verifier::external_body] fn from(e: IoError) -> AnyErr { unimplemented!() } }
pub enum FsError { IO(IoError) }
impl From<FsError> for AnyErr { #[verifier::external_body] fn from(e: FsError) -> AnyErr { unimplemented!() } }

impl Metadata {
    pub uninterp spec fn spec_len(&self) -> u64;
    #[verifier::external_body] pub fn len(&self) -> (r: u64) ensures r == self.spec_len() { unimplemented!() }
}
impl File {
    pub uninterp spec fn inode(&self) -> Inode;
    #[verifier::external_body]
    pub fn open(p: &Path, Tracked(w): Tracked<&mut World>) -> (r: std::result::Result<File, IoError>)
        ensures final(w).files == old(w).files, final(w).paths == old(w).paths,
            r is Err ==> final(w).faults == old(w).faults + 1,
            match r { Ok(f) => old(w).paths.contains_key(p.key()) && f.inode() == old(w).paths[p.key()] && final(w).faults == old(w).faults, Err(_) => true }
    { unimplemented!() }
    #[verifier::external_body]
    pub fn create(p: &Path, Tracked(w): Tracked<&mut World>) -> (r: std::result::Result<File, IoError>)
        ensures
            r is Err ==> final(w).faults == old(w).faults + 1 && final(w).files == old(w).files && final(w).paths == old(w).paths,
            match r { Ok(f) => final(w).faults == old(w).faults
                && final(w).paths == old(w).paths.insert(p.key(), f.inode())
                && (old(w).paths.contains_key(p.key()) ==> f.inode() == old(w).paths[p.key()])
                && (!old(w).paths.contains_key(p.key()) ==> !old(w).files.contains_key(f.inode()))
                && final(w).files == old(w).files.insert(f.inode(), FileState { bytes: seq![] }),
              Err(_) => true }
    { unimplemented!() }
    #[verifier::external_body]
    pub fn metadata(&self, Tracked(w): Tracked<&mut World>) -> (r: std::result::Result<Metadata, IoError>)
        ensures final(w).files == old(w).files, final(w).paths == old(w).paths,
            r is Err ==> final(w).faults == old(w).faults + 1,
            match r { Ok(m) => old(w).files.contains_key(self.inode()) && m.spec_len() == old(w).files[self.inode()].bytes.len() && final(w).faults == old(w).faults, Err(_) => true }
    { unimplemented!() }
}
pub mod fs {
    use super::*;
    #[verifier::external_body]
    pub fn rename(a: &Path, b: PathBuf, Tracked(w): Tracked<&mut World>) -> (r: std::result::Result<(), IoError>)
        ensures final(w).files == old(w).files,
          r is Err ==> final(w).faults == old(w).faults + 1 && final(w).paths == old(w).paths,
          r is Ok ==> final(w).faults == old(w).faults && old(w).paths.contains_key(a.key())
               && final(w).paths == old(w).paths.remove(a.key()).insert(b.key(), old(w).paths[a.key()])
    { unimplemented!() }
}
#[verifier::external_body]
pub fn allocate_file(fd: &File, len: u64, Tracked(w): Tracked<&mut World>) -> (r: std::result::Result<(), FsError>)
    ensures final(w).paths == old(w).paths,
      r is Err ==> final(w).faults == old(w).faults + 1 && final(w).files == old(w).files,
      r is Ok ==> final(w).faults == old(w).faults && old(w).files.contains_key(fd.inode())
        && final(w).files == old(w).files.insert(fd.inode(), FileState { bytes: Seq::new(len as nat, |i:int| if i < old(w).files[fd.inode()].bytes.len() { old(w).files[fd.inode()].bytes[i] } else { 0u8 }) })
{ unimplemented!() }

pub struct Config { pub block_size: u64 }
#[verifier::external_body]
pub fn needs_backup(file: &Path, conf: &Config, Tracked(w): Tracked<&mut World>) -> (r: Result<bool>)
   ensures final(w).files == old(w).files, final(w).paths == old(w).paths, final(w).faults == old(w).faults + (if r is Err {1nat} else {0})
{ unimplemented!() }
#[verifier::external_body]
pub fn get_backup_path(file: &Path, Tracked(w): Tracked<&mut World>) -> (r: Result<PathBuf>)
   ensures final(w).files == old(w).files, final(w).paths == old(w).paths, final(w).faults == old(w).faults + (if r is Err {1nat} else {0}),
     match r { Ok(b) => !old(w).paths.contains_key(b.key()) && b.key() != file.key(), Err(_) => true }
{ unimplemented!() }

// ---------- extracted (verbatim + R1,R2) ----------
pub struct CopyHandle {
    pub infd: File,
    pub outfd: File,
    pub metadata: Metadata,
    pub config: Arc<Config>,
}

impl CopyHandle {
    pub fn new(from: &Path, to: &Path, config: &Arc<Config>, Tracked(w): Tracked<&mut World>) -> (r: Result<CopyHandle>)
        requires old(w).paths.contains_key(from.key()) ==> old(w).files.contains_key(old(w).paths[from.key()]),
        ensures
            // C03: the source inode's content is untouched
            old(w).paths.contains_key(from.key()) ==> final(w).files.contains_key(old(w).paths[from.key()]) && final(w).files[old(w).paths[from.key()]] == old(w).files[old(w).paths[from.key()]],
            // C04
            final(w).faults > old(w).faults ==> r is Err,
    {
        let infd = File::open(from, Tracked(w))?;
        let metadata = infd.metadata(Tracked(w))?;

        if needs_backup(to, config, Tracked(w))? {
            let backup = get_backup_path(to, Tracked(w))?;
            info!("Backup: Rename {:?} to {:?}", to, backup);
            fs::rename(to, backup, Tracked(w))?;
        }

        let outfd = File::create(to, Tracked(w))?;
        allocate_file(&outfd, metadata.len(), Tracked(w))?;

        let handle = CopyHandle {
            infd,
            outfd,
            metadata,
            config: config.clone(),
        };

        Ok(handle)
    }
}
}
fn main(){}
