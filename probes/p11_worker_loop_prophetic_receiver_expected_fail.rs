use vstd::prelude::*;
verus! {
pub enum Operation { Copy(u32, u32), Link(u32, u32) }
pub struct World { pub faults: nat, pub errors: nat }

#[verifier::external_body]
#[verifier::reject_recursive_types(T)]
pub struct Receiver<T> { x: std::marker::PhantomData<T> }
#[verifier::external_body]
#[verifier::reject_recursive_types(T)]
pub struct RecvIter<T> { x: std::marker::PhantomData<T> }

impl<T> Iterator for RecvIter<T> {
    type Item = T;
    #[verifier::external_body]
    fn next(&mut self) -> (r: Option<T>)
    { unimplemented!() }
}
pub uninterp spec fn recv_remaining<T>(it: &RecvIter<T>) -> Seq<T>;
impl<T> vstd::std_specs::iter::IteratorSpecImpl for RecvIter<T> {
    open spec fn obeys_prophetic_iter_laws(&self) -> bool { true }
    open spec fn remaining(&self) -> Seq<T> { recv_remaining(self) }
    open spec fn will_return_none(&self) -> bool { true }
    open spec fn decrease(&self) -> Option<nat> { Some(recv_remaining(self).len()) }
    open spec fn peek(&self, i: int) -> Option<T> { if 0 <= i < recv_remaining(self).len() { Some(recv_remaining(self)[i]) } else { None } }
}
impl<T> IntoIterator for Receiver<T> {
    type Item = T;
    type IntoIter = RecvIter<T>;
    #[verifier::external_body]
    fn into_iter(self) -> RecvIter<T> { unimplemented!() }
}
#[verifier::external_body]
fn symlink(a: u32, b: u32, Tracked(w): Tracked<&mut World>) -> (r: Result<(), u8>)
  ensures r is Err ==> final(w).faults == old(w).faults + 1, r is Ok ==> final(w).faults == old(w).faults, final(w).errors == old(w).errors
{ unimplemented!() }

fn worker(work: Receiver<Operation>, Tracked(w): Tracked<&mut World>) -> (r: Result<(), u8>) 
   ensures final(w).faults > old(w).faults ==> r is Err || final(w).errors > old(w).errors
{
    for op in work 
      invariant w.faults == old(w).faults
    {
        match op {
            Operation::Copy(a, b) => { if a == b { return Err(1); } }
            Operation::Link(a, b) => { let _r = symlink(a, b, Tracked(w)); }
        }
    }
    Ok(())
}
}
fn main(){}
