use vstd::prelude::*;
verus! {
pub struct World { pub clones: nat, pub errno: i32 }
pub mod libc {
    use super::*;
    pub const EOPNOTSUPP: i32 = 95;
    pub const EINVAL: i32 = 22;
    pub const EXDEV: i32 = 18;
    pub const ETXTBSY: i32 = 26;
    #[verifier::external_body]
    pub unsafe fn ioctl(fd: i32, req: u64, arg: i32, Tracked(w): Tracked<&mut World>) -> (r: i32)
        ensures final(w).clones == old(w).clones + 1, r == 0 || (r == -1 && final(w).errno > 0)
    { unimplemented!() }
}
pub const FICLONE: u32 = 0x40049409;
#[verifier::external_body]
pub struct File { fd: i32 }
impl File {
    #[verifier::external_body]
    pub fn as_raw_fd(&self) -> i32 { unimplemented!() }
}
#[verifier::external_body]
pub struct IoError { e: i32 }
impl IoError {
    pub uninterp spec fn code(&self) -> Option<i32>;
    #[verifier::external_body]
    pub fn last_os_error(Tracked(w): Tracked<&World>) -> (r: IoError) ensures r.code() == Some(w.errno) { unimplemented!() }
    #[verifier::external_body]
    pub fn raw_os_error(&self) -> (r: Option<i32>) ensures r == self.code() { unimplemented!() }
}
pub enum FsError { IOError(IoError) }
impl From<IoError> for FsError { fn from(e: IoError) -> FsError { FsError::IOError(e) } }
impl vstd::std_specs::convert::FromSpecImpl<IoError> for FsError {
    open spec fn obeys_from_spec() -> bool { true }
    open spec fn from_spec(e: IoError) -> FsError { FsError::IOError(e) }
}
pub type Result<T, E = FsError> = std::result::Result<T, E>;
pub mod io { pub use super::IoError as Error; }

pub fn reflink(infd: &File, outfd: &File, Tracked(w): Tracked<&mut World>) -> (r: Result<bool>)
   ensures final(w).clones == old(w).clones + 1,
     match r { Ok(true) => true, Ok(false) => final(w).errno == 95 || final(w).errno == 22 || final(w).errno == 18 || final(w).errno == 26, Err(_) => true }
{
    if unsafe { libc::ioctl(outfd.as_raw_fd(), FICLONE as u64, infd.as_raw_fd(), Tracked(w)) } != 0 {
        let oserr = io::Error::last_os_error(Tracked(w));
        match oserr.raw_os_error() {
            Some(libc::EOPNOTSUPP)
                | Some(libc::EINVAL)
                | Some(libc::EXDEV)
                | Some(libc::ETXTBSY) =>
                return Ok(false),
            _ =>
                return  Err(oserr.into()),
        }
    }
    Ok(true)
}
}
fn main(){}
