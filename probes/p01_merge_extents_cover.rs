use vstd::prelude::*;
verus! {

#[derive(Debug, PartialEq)]
pub struct Extent {
    pub start: u64,
    pub end: u64,
    pub shared: bool,
}

pub enum Error { X }
pub type Result<T, E = Error> = std::result::Result<T, E>;

pub open spec fn wf1(e: Extent) -> bool { e.start <= e.end && e.end < u64::MAX }
pub open spec fn wf(s: Seq<Extent>) -> bool {
    forall|i:int| 0 <= i < s.len() ==> wf1(#[trigger] s[i])
}
pub open spec fn inx(e: Extent, b: int) -> bool { e.start <= b < e.end }
pub open spec fn covered(s: Seq<Extent>, b: int) -> bool {
    exists|i:int| 0 <= i < s.len() && inx(#[trigger] s[i], b)
}
pub open spec fn optseq(p: Option<Extent>) -> Seq<Extent> {
    match p { Some(e) => seq![e], None => seq![] }
}

pub fn merge_extents(extents: Vec<Extent>) -> (r: Result<Vec<Extent>>)
    requires wf(extents@),
    ensures r is Ok,
        forall|b:int| covered(extents@, b) ==> covered(r->Ok_0@, b),
{
    let mut merged: Vec<Extent> = vec![];

    let mut prev: Option<Extent> = None;
    for e in it: extents
        invariant
            it.seq() == extents@, 0 <= it.index@ <= extents@.len(), wf(extents@),
            wf(merged@), wf(optseq(prev)),
            forall|b:int| covered(extents@.take(it.index@), b) ==> covered(merged@ + optseq(prev), b),
    {
        let ghost old_m = merged@ + optseq(prev);
        let ghost old_prev = prev;
        let ghost old_merged = merged@;
        assert(e == extents@[it.index@]);
        assert(wf1(e));
        assert(prev is Some ==> wf1(optseq(prev)[0]));
        match prev {
            Some(p) => {
                if e.start == p.end + 1 {
                    prev = Some(Extent {
                        start: p.start,
                        end: e.end,
                        shared: p.shared && e.shared,
                    });
                } else {
                    merged.push(p);
                    prev = Some(e);
                }
            }
            // First iter
            None => prev = Some(e),
        }
        proof {
            let new_m = merged@ + optseq(prev);
            let pre = extents@.take(it.index@);
            let post = extents@.take(it.index@ + 1);
            assert(post == pre.push(e));
            assert(wf1(optseq(prev)[0]));
            assert forall|b:int| covered(post, b) implies covered(new_m, b) by {
                let i = choose|i:int| 0 <= i < post.len() && inx(#[trigger] post[i], b);
                if i < pre.len() {
                    assert(pre[i] == post[i]);
                    assert(covered(pre, b));
                    assert(covered(old_m, b));
                    let j = choose|j:int| 0 <= j < old_m.len() && inx(#[trigger] old_m[j], b);
                    if j < old_merged.len() {
                        assert(new_m[j] == old_m[j]);
                    } else {
                        assert(old_prev is Some && old_m[j] == old_prev->Some_0);
                        assert(inx(new_m[new_m.len()-1], b) || inx(new_m[new_m.len()-2], b));
                    }
                } else {
                    assert(post[i] == e);
                    assert(inx(new_m[new_m.len()-1], b));
                }
            }
        }
    }
    let ghost m0 = merged@ + optseq(prev);
    proof { assert(extents@.take(extents@.len() as int) == extents@); }
    if let Some(p) = prev {
        merged.push(p);
    }
    proof { assert(merged@ == m0); }

    Ok(merged)
}
}
fn main(){}
