use vstd::prelude::*;
use std::sync::Arc;
macro_rules! debug { ($($t:tt)*) => { () } }
macro_rules! error { ($($t:tt)*) => { () } }
macro_rules! format { ($($t:tt)*) => { opaque_string() } }
verus! {
#[verifier::external_body] pub fn opaque_string() -> String { String::new() }
pub type PathKey = Seq<u8>;
pub enum Kind { File, Dir, Symlink, Socket, Fifo, Char, Block, Other }
pub enum Event { Probe(PathKey, bool), Mkdir(PathKey), QueueCopy(PathKey, PathKey), QueueLink(PathKey, PathKey), QueueSpecial(PathKey, PathKey), SendSize(u64), SendError }
pub struct World { pub trace: Seq<Event>, pub faults: nat, pub errors_sent: nat }

#[verifier::external_body] pub struct Path { x: u8 }
#[verifier::external_body] pub struct PathBuf { x: u8 }
#[verifier::external_body] pub struct IoError { x: u8 }
#[verifier::external_body] pub struct WalkError { x: u8 }
#[verifier::external_body] pub struct StripPrefixError { x: u8 }
#[verifier::external_body] pub struct SendError { x: u8 }
#[verifier::external_body] pub struct AnyErr { x: u8 }
pub type Result<T, E = AnyErr> = std::result::Result<T, E>;
impl From<IoError> for AnyErr { #[verifier::external_body] fn from(e: IoError) -> AnyErr { unimplemented!() } }
impl From<WalkError> for AnyErr { #[verifier::external_body] fn from(e: WalkError) -> AnyErr { unimplemented!() } }
impl From<StripPrefixError> for AnyErr { #[verifier::external_body] fn from(e: StripPrefixError) -> AnyErr { unimplemented!() } }
impl From<SendError> for AnyErr { #[verifier::external_body] fn from(e: SendError) -> AnyErr { unimplemented!() } }
impl From<XcpError> for AnyErr { #[verifier::external_body] fn from(e: XcpError) -> AnyErr { unimplemented!() } }

pub enum XcpError {
    CopyError(String),
    DestinationExists(&'static str, PathBuf),
    EarlyShutdown(&'static str),
    UnknownFileType(PathBuf),
}
#[verifier::external_body] pub struct Metadata { x: u8 }
#[verifier::external_body] pub struct StdFileType { x: u8 }
#[derive(Debug)]
pub enum FileType { File, Dir, Symlink, Socket, Fifo, Char, Block, Other }
impl StdFileType { pub uninterp spec fn kind(&self) -> Kind; }
impl From<StdFileType> for FileType { #[verifier::external_body] fn from(ft: StdFileType) -> FileType { unimplemented!() } }
impl Metadata {
    pub uninterp spec fn spec_len(&self) -> u64;
    #[verifier::external_body] pub fn len(&self) -> (r: u64) ensures r == self.spec_len() { unimplemented!() }
    #[verifier::external_body] pub fn file_type(&self) -> StdFileType { unimplemented!() }
}
#[verifier::external_body] pub struct DirEntry { x: u8 }
impl DirEntry { #[verifier::external_body] pub fn into_path(self) -> PathBuf { unimplemented!() } }

impl PathBuf {
    pub uninterp spec fn key(&self) -> PathKey;
    #[verifier::external_body] pub fn new() -> PathBuf { unimplemented!() }
    #[verifier::external_body] pub fn clone(&self) -> (r: PathBuf) ensures r.key() == self.key() { unimplemented!() }
    #[verifier::external_body] pub fn symlink_metadata(&self, Tracked(w): Tracked<&mut World>) -> (r: std::result::Result<Metadata, IoError>)
        ensures final(w).trace == old(w).trace, final(w).errors_sent == old(w).errors_sent, final(w).faults == old(w).faults + (if r is Err {1nat} else {0})
    { unimplemented!() }
    #[verifier::external_body] pub fn strip_prefix<'a>(&'a self, p: &PathBuf) -> std::result::Result<&'a Path, StripPrefixError> { unimplemented!() }
    #[verifier::external_body] pub fn join(&self, p: &Path) -> PathBuf { unimplemented!() }
    #[verifier::external_body] pub fn exists(&self, Tracked(w): Tracked<&mut World>) -> (r: bool)
        ensures final(w).trace == old(w).trace.push(Event::Probe(self.key(), r)), final(w).errors_sent == old(w).errors_sent, final(w).faults == old(w).faults
    { unimplemented!() }
}
#[verifier::external_body] pub fn path_eq_empty(p: &Path) -> bool { unimplemented!() }
#[verifier::external_body] pub fn canonicalize(p: &PathBuf, Tracked(w): Tracked<&mut World>) -> (r: std::result::Result<PathBuf, IoError>)
    ensures final(w).trace == old(w).trace, final(w).errors_sent == old(w).errors_sent, final(w).faults == old(w).faults + (if r is Err {1nat} else {0})
{ unimplemented!() }
#[verifier::external_body] pub fn read_link(p: PathBuf, Tracked(w): Tracked<&mut World>) -> (r: std::result::Result<PathBuf, IoError>)
    ensures final(w).trace == old(w).trace, final(w).errors_sent == old(w).errors_sent, final(w).faults == old(w).faults + (if r is Err {1nat} else {0})
{ unimplemented!() }
#[verifier::external_body] pub fn create_dir_all(p: &PathBuf, Tracked(w): Tracked<&mut World>) -> (r: std::result::Result<(), IoError>)
    ensures final(w).trace == old(w).trace.push(Event::Mkdir(p.key())), final(w).errors_sent == old(w).errors_sent, final(w).faults == old(w).faults + (if r is Err {1nat} else {0})
{ unimplemented!() }

pub enum Operation { Copy(PathBuf, PathBuf), Link(PathBuf, PathBuf), Special(PathBuf, PathBuf) }
pub enum StatusUpdate { Copied(u64), Size(u64), Error(XcpError) }
pub trait StatusUpdater {
    fn send(&self, update: StatusUpdate, Tracked(w): Tracked<&mut World>) -> (r: Result<()>)
        ensures final(w).faults == old(w).faults + (if r is Err {1nat} else {0}),
            final(w).errors_sent == old(w).errors_sent + (if update is Error && r is Ok {1nat} else {0}),
            final(w).trace == old(w).trace.push(match update { StatusUpdate::Size(n) => Event::SendSize(n), _ => Event::SendError });
}
#[verifier::external_body] pub struct Sender { x: u8 }
impl Sender {
    #[verifier::external_body] pub fn send(&self, op: Operation, Tracked(w): Tracked<&mut World>) -> (r: std::result::Result<(), SendError>)
        ensures final(w).errors_sent == old(w).errors_sent, final(w).faults == old(w).faults + (if r is Err {1nat} else {0}),
          final(w).trace == old(w).trace.push(match op { Operation::Copy(a,b) => Event::QueueCopy(a.key(), b.key()), Operation::Link(a,b) => Event::QueueLink(a.key(), b.key()), Operation::Special(a,b) => Event::QueueSpecial(a.key(), b.key()) })
    { unimplemented!() }
}
pub struct Config { pub dereference: bool, pub no_clobber: bool }

fn empty_path(path: &Path) -> bool {
    path_eq_empty(path)
}

// slice operations.rs:193-251 wrapped (R10)
fn tree_walker__entry(entry: std::result::Result<DirEntry, WalkError>, source: &PathBuf, target_base: &PathBuf, config: &Config,
     work_tx: &Sender, stats: &Arc<dyn StatusUpdater>, Tracked(w): Tracked<&mut World>) -> (r: Result<()>)
   ensures final(w).faults > old(w).faults ==> r is Err,
{
            let epath = entry?.into_path();
            let from = if config.dereference {
                let cpath = canonicalize(&epath, Tracked(w))?;
                debug!("Dereferencing {:?} into {:?}", epath, cpath);
                cpath
            } else {
                epath.clone()
            };
            let meta = from.symlink_metadata(Tracked(w))?;
            let path = epath.strip_prefix(&source)?;
            let target = if !empty_path(path) {
                target_base.join(path)
            } else {
                target_base.clone()
            };

            if config.no_clobber && target.exists(Tracked(w)) {
                let msg = "Destination file exists and --no-clobber is set.";
                stats.send(StatusUpdate::Error(
                    XcpError::DestinationExists(msg, target)), Tracked(w))?;
                return Err(XcpError::EarlyShutdown(msg).into());
            }

            let ft = FileType::from(meta.file_type());
            match ft {
                FileType::File => {
                    debug!("Send copy operation {:?} to {:?}", from, target);
                    stats.send(StatusUpdate::Size(meta.len()), Tracked(w))?;
                    work_tx.send(Operation::Copy(from, target), Tracked(w))?;
                }

                FileType::Symlink => {
                    let lfile = read_link(from, Tracked(w))?;
                    debug!("Send symlink operation {:?} to {:?}", lfile, target);
                    work_tx.send(Operation::Link(lfile, target), Tracked(w))?;
                }

                FileType::Dir => {
                    debug!("Creating target directory {:?}", target);
                    if let Err(err) = create_dir_all(&target, Tracked(w)) {
                        let msg = format!("Error creating target directory: {}", err);
                        error!("{msg}");
                        return Err(XcpError::CopyError(msg).into())
                    }
                }

                FileType::Socket | FileType::Char | FileType::Fifo => {
                    debug!("Special file found: {:?} to {:?}", from, target);
                    work_tx.send(Operation::Special(from, target), Tracked(w))?;
                }

                FileType::Block | FileType::Other => {
                    error!("Unsupported filetype found: {:?} -> {:?}", target, ft);
                    return Err(XcpError::UnknownFileType(target).into());
                }
            };
    Ok(())
}
}
fn main(){}
