use vstd::prelude::*;
verus! {
#[derive(PartialEq, Eq, Clone, Copy)]
pub struct Errno(pub u16);
impl Errno {
    pub const NOSYS: Errno = Errno(38);
    pub const PERM: Errno = Errno(1);
    pub const XDEV: Errno = Errno(18);
}
pub enum FsError { InvalidSource(&'static str), OSError(Errno) }
impl From<Errno> for FsError {
    fn from(e: Errno) -> (r: FsError) { FsError::OSError(e) }
}
impl vstd::std_specs::convert::FromSpecImpl<Errno> for FsError {
    open spec fn obeys_from_spec() -> bool { true }
    open spec fn from_spec(e: Errno) -> FsError { FsError::OSError(e) }
}
pub type Result<T, E = FsError> = std::result::Result<T, E>;
#[verifier::external_body]
pub struct File { fd: i32 }
pub struct World { pub in_cur: nat, pub out_cur: nat, pub out: Seq<u8>, pub reported: nat }

#[verifier::external_body]
fn copy_file_range(infd: &File, in_off: Option<&mut u64>, outfd: &File, out_off: Option<&mut u64>, len: usize, Tracked(w): Tracked<&mut World>) -> (r: std::result::Result<usize, Errno>)
   ensures match r { Ok(n) => n <= len
       && (match in_off { Some(p) => *final(p) == *p + n, None => true }), Err(_) => true }
{ unimplemented!() }

fn try_copy_file_range(
    infd: &File,
    in_off: Option<&mut u64>,
    outfd: &File,
    out_off: Option<&mut u64>,
    bytes: u64,
    Tracked(w): Tracked<&mut World>
) -> (r: Option<Result<usize>>) 
   ensures match r { Some(Ok(n)) => n <= bytes, _ => true }
{
    let cfr_ret = copy_file_range(infd, in_off, outfd, out_off, bytes as usize, Tracked(w));

    match cfr_ret {
        Ok(retval) => {
            Some(Ok(retval))
        },
        Err(Errno::NOSYS) | Err(Errno::PERM) | Err(Errno::XDEV) => {
            None
        },
        Err(errno) => {
            Some(Err(errno.into()))
        },
    }
}
#[verifier::external_body]
fn copy_range_uspace(infd: &File, outfd: &File, bytes: usize, off: usize, Tracked(w): Tracked<&mut World>) -> (r: Result<usize>)
{ unimplemented!() }

pub fn copy_file_offset(infd: &File, outfd: &File, bytes: u64, off: i64, Tracked(w): Tracked<&mut World>) -> Result<usize> {
    let mut off_in = off as u64;
    let mut off_out = off as u64;
    match try_copy_file_range(infd, Some(&mut off_in), outfd, Some(&mut off_out), bytes, Tracked(w))
        { Some(v__) => v__, None => copy_range_uspace(infd, outfd, bytes as usize, off as usize, Tracked(w)) }
}
}
fn main(){}
