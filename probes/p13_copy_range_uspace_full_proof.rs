use vstd::prelude::*;
use std::cmp;
use vstd::std_specs::cmp::OrdSpec;
verus! {
#[verifier::allow(undeclared_external_trait)]
pub assume_specification<T: std::cmp::Ord + std::marker::Destruct> [std::cmp::min](a: T, b: T) -> (r: T)
    ensures T::obeys_cmp_spec() ==> r == (if a.cmp_spec(&b) is Greater { b } else { a });

pub type Inode = int;
pub struct World { pub files: Map<Inode, Seq<u8>>, pub faults: nat }
#[verifier::external_body] pub struct File { x: u8 }
impl File { pub uninterp spec fn inode(&self) -> Inode; }
#[derive(Clone, Copy)]
pub struct Errno(pub u16);
pub enum Error { InvalidSource(&'static str), OSError(Errno) }
impl From<Errno> for Error { fn from(e: Errno) -> Error { Error::OSError(e) } }
impl vstd::std_specs::convert::FromSpecImpl<Errno> for Error {
    open spec fn obeys_from_spec() -> bool { true }
    open spec fn from_spec(e: Errno) -> Error { Error::OSError(e) }
}
pub type Result<T, E = Error> = std::result::Result<T, E>;

pub open spec fn sub(s: Seq<u8>, a: int, n: int) -> Seq<u8> { if n <= 0 { Seq::<u8>::empty() } else { s.subrange(a, a + n) } }
pub open spec fn patched(out: Seq<u8>, off: int, data: Seq<u8>) -> Seq<u8> {
    if data.len() == 0 { out } else {
        Seq::new(if out.len() > off + data.len() { out.len() } else { (off + data.len()) as nat },
            |i: int| if off <= i < off + data.len() { data[i - off] } else if i < out.len() { out[i] } else { 0u8 })
    }
}
proof fn lemma_patch_append(out: Seq<u8>, off: int, a: Seq<u8>, b: Seq<u8>)
    requires off >= 0
    ensures patched(patched(out, off, a), off + a.len(), b) =~= patched(out, off, a + b)
{
    if a.len() == 0 { assert(a + b =~= b); } else if b.len() == 0 { assert(a + b =~= a); } else { }
}

// K-pread / K-pwrite (assumed)
#[verifier::external_body]
pub fn pread(fd: &File, buf: &mut [u8], off: u64, Tracked(w): Tracked<&mut World>) -> (r: std::result::Result<usize, Errno>)
    requires old(w).files.contains_key(fd.inode())
    ensures final(w).files == old(w).files, final(buf)@.len() == old(buf)@.len(),
        r is Err ==> final(w).faults == old(w).faults + 1,
        match r { Ok(n) => final(w).faults == old(w).faults && n <= old(buf)@.len()
            && (n == 0 <==> (old(buf)@.len() == 0 || off >= old(w).files[fd.inode()].len()))
            && off + n <= old(w).files[fd.inode()].len()
            && final(buf)@.subrange(0, n as int) == old(w).files[fd.inode()].subrange(off as int, off + n),
          Err(_) => true }
{ unimplemented!() }
#[verifier::external_body]
pub fn pwrite(fd: &File, buf: &[u8], off: u64, Tracked(w): Tracked<&mut World>) -> (r: std::result::Result<usize, Errno>)
    requires old(w).files.contains_key(fd.inode())
    ensures r is Err ==> final(w).faults == old(w).faults + 1 && final(w).files == old(w).files,
        match r { Ok(n) => final(w).faults == old(w).faults && n <= buf@.len() && (n == 0 ==> buf@.len() == 0)
            && final(w).files == old(w).files.insert(fd.inode(), patched(old(w).files[fd.inode()], off as int, buf@.subrange(0, n as int))),
          Err(_) => true }
{ unimplemented!() }

// ---- extracted verbatim (+R1,R2,R8) ----
pub(crate) fn read_bytes(fd: &File, buf: &mut [u8], off: usize, Tracked(w): Tracked<&mut World>) -> (r: Result<usize>)
    requires old(w).files.contains_key(fd.inode())
    ensures final(w).files == old(w).files, final(buf)@.len() == old(buf)@.len(),
        final(w).faults > old(w).faults ==> r is Err, r is Ok ==> final(w).faults == old(w).faults,
        match r { Ok(n) => n <= old(buf)@.len()
            && (n == 0 <==> (old(buf)@.len() == 0 || off >= old(w).files[fd.inode()].len()))
            && off + n <= old(w).files[fd.inode()].len()
            && final(buf)@.subrange(0, n as int) == old(w).files[fd.inode()].subrange(off as int, off + n),
          Err(_) => true }
{
    Ok(pread(fd, buf, off as u64, Tracked(w))?)
}

pub(crate) fn write_bytes(fd: &File, buf: &mut [u8], off: usize, Tracked(w): Tracked<&mut World>) -> (r: Result<usize>)
    requires old(w).files.contains_key(fd.inode())
    ensures final(buf)@ == old(buf)@,
        final(w).faults > old(w).faults ==> r is Err, r is Ok ==> final(w).faults == old(w).faults,
        r is Err ==> final(w).files == old(w).files,
        match r { Ok(n) => n <= old(buf)@.len() && (n == 0 ==> old(buf)@.len() == 0)
            && final(w).files == old(w).files.insert(fd.inode(), patched(old(w).files[fd.inode()], off as int, old(buf)@.subrange(0, n as int))),
          Err(_) => true }
{
    Ok(pwrite(fd, buf, off as u64, Tracked(w))?)
}

pub(crate) fn copy_range_uspace(reader: &File, writer: &File, nbytes: usize, off: usize, Tracked(w): Tracked<&mut World>) -> (r: Result<usize>)
    requires off + nbytes <= usize::MAX,
        reader.inode() != writer.inode(),
        old(w).files.contains_key(reader.inode()), old(w).files.contains_key(writer.inode()),
    ensures
        final(w).files.dom() == old(w).files.dom(),
        forall|i: Inode| i != writer.inode() && old(w).files.contains_key(i) ==> final(w).files[i] == old(w).files[i],
        final(w).faults > old(w).faults ==> r is Err,
        match r {
            Ok(n) => n == nbytes && (nbytes > 0 ==> off + nbytes <= old(w).files[reader.inode()].len())
                && final(w).files[writer.inode()] == patched(old(w).files[writer.inode()], off as int, sub(old(w).files[reader.inode()], off as int, nbytes as int)),
            Err(_) => true,
        }
{
    // FIXME: For larger buffers we should use a pre-allocated thread-local?
    let mut buf = vec![0; nbytes];

    let mut written: usize = 0;
    while written < nbytes
        invariant
            written <= nbytes, off + nbytes <= usize::MAX, buf@.len() == nbytes,
            reader.inode() != writer.inode(),
            w.files.dom() == old(w).files.dom(),
            w.files.contains_key(reader.inode()), w.files.contains_key(writer.inode()),
            forall|i: Inode| i != writer.inode() && old(w).files.contains_key(i) ==> w.files[i] == old(w).files[i],
            w.faults == old(w).faults,
            written > 0 ==> off + written <= old(w).files[reader.inode()].len(),
            w.files[writer.inode()] == patched(old(w).files[writer.inode()], off as int, sub(old(w).files[reader.inode()], off as int, written as int)),
        decreases nbytes - written
    {
        let next = cmp::min(nbytes - written, nbytes);
        let noff = off + written;

        let rlen = match read_bytes(reader, &mut buf.as_mut_slice()[..next], noff, Tracked(w)) {
            Ok(0) => return Err(Error::InvalidSource("Source file ended prematurely.")),
            Ok(len) => len,
            Err(e) => return Err(e),
        };
        let ghost chunk = buf@.subrange(0, rlen as int);
        let ghost w_mid = *w;

        let _wlen = match write_bytes(writer, &mut buf.as_mut_slice()[..rlen], noff, Tracked(w)) {
            Ok(len) if len < rlen => {
                return Err(Error::InvalidSource("Failed write to file."))
            }
            Ok(len) => len,
            Err(e) => return Err(e),
        };

        proof {
            let src = old(w).files[reader.inode()];
            let a = sub(src, off as int, written as int);
            assert(chunk == src.subrange(noff as int, noff + rlen));
            assert(buf@.subrange(0, rlen as int).subrange(0, rlen as int) == chunk);
            lemma_patch_append(old(w).files[writer.inode()], off as int, a, chunk);
            assert(a + chunk =~= sub(src, off as int, written + rlen));
        }
        written += rlen;
    }
    Ok(written)
}
}
fn main(){}
