use vstd::prelude::*;
verus! {
#[verifier::external_body]
#[verifier::reject_recursive_types(T)]
pub struct RecvIter<T> { x: std::marker::PhantomData<T> }
impl<T> Iterator for RecvIter<T> {
    type Item = T;
    #[verifier::external_body]
    fn next(&mut self) -> Option<T> { unimplemented!() }
}
impl<T> vstd::std_specs::iter::IteratorSpecImpl for RecvIter<T> {
}
}
fn main(){}
