use vstd::prelude::*;
verus! {
#[verifier::external_body]
fn fill(buf: &mut [u8]) 
    ensures final(buf)@.len() == old(buf)@.len(),
      forall|i:int| 0 <= i < final(buf)@.len() ==> final(buf)@[i] == 7
{ unimplemented!() }

fn t(n: usize, k: usize) requires k <= n {
    let mut buf = vec![0u8; n];
    fill(&mut buf.as_mut_slice()[..k]);
    assert(buf@.len() == n);
    assert(forall|i:int| 0 <= i < k ==> buf@[i] == 7);
    assert(forall|i:int| k <= i < n ==> buf@[i] == 0);
}
}
fn main(){}
