use vstd::prelude::*;
verus! {
pub type Inode = int;
pub struct FileState { pub len: nat, pub data: Set<int> }
pub struct World { pub files: Map<Inode, FileState>, pub cursor: Map<Inode, nat>, pub faults: nat }
#[verifier::external_body] pub struct File { x: u8 }
impl File { pub uninterp spec fn inode(&self) -> Inode; }
#[derive(PartialEq, Eq, Clone, Copy, Structural)]
pub struct Errno(pub u16);
impl Errno { pub const NXIO: Errno = Errno(6); }
pub enum Error { OSError(Errno), IOError(IoError) }
#[verifier::external_body] pub struct IoError { x: u8 }
impl From<Errno> for Error { fn from(e: Errno) -> Error { Error::OSError(e) } }
impl vstd::std_specs::convert::FromSpecImpl<Errno> for Error {
    open spec fn obeys_from_spec() -> bool { true }
    open spec fn from_spec(e: Errno) -> Error { Error::OSError(e) }
}
impl From<IoError> for Error { fn from(e: IoError) -> Error { Error::IOError(e) } }
impl vstd::std_specs::convert::FromSpecImpl<IoError> for Error {
    open spec fn obeys_from_spec() -> bool { true }
    open spec fn from_spec(e: IoError) -> Error { Error::IOError(e) }
}
pub type Result<T, E = Error> = std::result::Result<T, E>;
pub enum SeekFrom { Start(u64), Data(u64), Hole(u64) }
#[verifier::external_body] pub struct Metadata { x: u8 }
impl Metadata { pub uninterp spec fn spec_len(&self) -> u64;
  #[verifier::external_body] pub fn len(&self) -> (r: u64) ensures r == self.spec_len() { unimplemented!() } }
impl File {
    #[verifier::external_body]
    pub fn metadata(&self, Tracked(w): Tracked<&mut World>) -> (r: std::result::Result<Metadata, IoError>)
        requires old(w).files.contains_key(self.inode())
        ensures final(w).files == old(w).files, final(w).cursor == old(w).cursor,
            final(w).faults == old(w).faults + (if r is Err {1nat} else {0}),
            match r { Ok(m) => m.spec_len() == old(w).files[self.inode()].len, Err(_) => true }
    { unimplemented!() }
}
pub open spec fn is_data_m(fs: Map<Inode, FileState>, i: Inode, x: int) -> bool { fs[i].data.contains(x) }
pub open spec fn is_data(w: &World, f: &File, x: int) -> bool { is_data_m(w.files, f.inode(), x) }

// K-seek (assumed)
#[verifier::external_body]
pub fn seek(fd: &File, from: SeekFrom, Tracked(w): Tracked<&mut World>) -> (r: std::result::Result<u64, Errno>)
    requires old(w).files.contains_key(fd.inode())
    ensures final(w).files == old(w).files,
        final(w).faults == old(w).faults + (if r is Err && r->Err_0 != Errno::NXIO {1nat} else {0}),
        from is Start ==> !(r is Err && r->Err_0 == Errno::NXIO),
        forall|i: Inode| i != fd.inode() ==> final(w).cursor[i] == old(w).cursor[i] && (final(w).cursor.contains_key(i) <==> old(w).cursor.contains_key(i)),
        ({ let len = old(w).files[fd.inode()].len as int;
           match from {
            SeekFrom::Start(p) => r is Ok ==> r->Ok_0 == p && final(w).cursor == old(w).cursor.insert(fd.inode(), p as nat),
            SeekFrom::Data(p) => match r {
                Ok(d) => p <= d < len && is_data_m(old(w).files, fd.inode(), d as int) && forall|x:int| p <= x < d ==> !is_data_m(old(w).files, fd.inode(), x),
                Err(e) => e == Errno::NXIO ==> forall|x:int| p <= x < len ==> !is_data_m(old(w).files, fd.inode(), x) },
            SeekFrom::Hole(p) => match r {
                Ok(h) => p <= h <= len && p < len && (forall|x:int| p <= x < h ==> is_data_m(old(w).files, fd.inode(), x)) && (h < len ==> !is_data_m(old(w).files, fd.inode(), h as int)),
                Err(e) => e == Errno::NXIO ==> p >= len },
        }})
{ unimplemented!() }

// ---- extracted verbatim (+R1,R2) from libfs/src/linux.rs ----
#[derive(PartialEq, Debug)]
enum SeekOff {
    Offset(u64),
    EOF,
}

fn lseek(fd: &File, from: SeekFrom, Tracked(w): Tracked<&mut World>) -> (r: Result<SeekOff>)
    requires old(w).files.contains_key(fd.inode())
    ensures final(w).files == old(w).files, final(w).faults > old(w).faults ==> r is Err, r is Ok ==> final(w).faults == old(w).faults,
        forall|i: Inode| i != fd.inode() ==> final(w).cursor[i] == old(w).cursor[i],
        ({ let len = old(w).files[fd.inode()].len as int;
           match (from, r) {
            (SeekFrom::Start(p), Ok(SeekOff::Offset(o))) => o == p && final(w).cursor[fd.inode()] == p,
            (SeekFrom::Data(p), Ok(SeekOff::Offset(d))) => p <= d < len && is_data_m(old(w).files, fd.inode(), d as int) && forall|x:int| p <= x < d ==> !is_data_m(old(w).files, fd.inode(), x),
            (SeekFrom::Data(p), Ok(SeekOff::EOF)) => forall|x:int| p <= x < len ==> !is_data_m(old(w).files, fd.inode(), x),
            (SeekFrom::Hole(p), Ok(SeekOff::Offset(h))) => p <= h <= len && p < len && (forall|x:int| p <= x < h ==> is_data_m(old(w).files, fd.inode(), x)) && (h < len ==> !is_data_m(old(w).files, fd.inode(), h as int)),
            (SeekFrom::Hole(p), Ok(SeekOff::EOF)) => p >= len,
            (SeekFrom::Start(p), Ok(SeekOff::EOF)) => false,
            _ => true,
        }})
{
    match seek(fd, from, Tracked(w)) {
        Err(errno) if errno == Errno::NXIO => Ok(SeekOff::EOF),
        Err(err) => Err(err.into()),
        Ok(off) => Ok(SeekOff::Offset(off)),
    }
}

pub fn next_sparse_segments(infd: &File, outfd: &File, pos: u64, Tracked(w): Tracked<&mut World>) -> (r: Result<(u64, u64)>)
    requires old(w).files.contains_key(infd.inode()), old(w).files.contains_key(outfd.inode()), infd.inode() != outfd.inode(),
        pos <= old(w).files[infd.inode()].len, old(w).files[infd.inode()].len <= u64::MAX,
    ensures final(w).files == old(w).files, final(w).faults > old(w).faults ==> r is Err,
        r is Ok ==> pos <= r->Ok_0.0,
        r is Ok ==> r->Ok_0.0 <= r->Ok_0.1,
        r is Ok ==> r->Ok_0.1 <= old(w).files[infd.inode()].len,
        r is Ok ==> (forall|x:int| pos <= x < r->Ok_0.0 ==> !is_data_m(old(w).files, infd.inode(), x)),
        r is Ok ==> (forall|x:int| r->Ok_0.0 <= x < r->Ok_0.1 ==> is_data_m(old(w).files, infd.inode(), x)),
        r is Ok ==> (r->Ok_0.1 < old(w).files[infd.inode()].len ==> !is_data_m(old(w).files, infd.inode(), r->Ok_0.1 as int)),
        r is Ok ==> (r->Ok_0.0 < old(w).files[infd.inode()].len ==> r->Ok_0.1 > r->Ok_0.0),
        r is Ok ==> final(w).cursor[infd.inode()] == r->Ok_0.0,
        r is Ok ==> final(w).cursor[outfd.inode()] == r->Ok_0.0,
{
    let next_data = match lseek(infd, SeekFrom::Data(pos), Tracked(w))? {
        SeekOff::Offset(off) => off,
        SeekOff::EOF => infd.metadata(Tracked(w))?.len(),
    };
    let next_hole = match lseek(infd, SeekFrom::Hole(next_data), Tracked(w))? {
        SeekOff::Offset(off) => off,
        SeekOff::EOF => infd.metadata(Tracked(w))?.len(),
    };

    lseek(infd, SeekFrom::Start(next_data), Tracked(w))?; // FIXME: EOF (but shouldn't happen)
    lseek(outfd, SeekFrom::Start(next_data), Tracked(w))?;

    Ok((next_data, next_hole))
}
}
fn main(){}
