use vstd::prelude::*;
use std::cmp;
use std::sync::Arc;
use vstd::std_specs::cmp::OrdSpec;
verus! {
#[verifier::allow(undeclared_external_trait)]
pub assume_specification<T: std::cmp::Ord + std::marker::Destruct> [std::cmp::min](a: T, b: T) -> (r: T)
    ensures
        T::obeys_cmp_spec() ==> r == (if a.cmp_spec(&b) is Greater { b } else { a });

pub enum FsError { InvalidSource(&'static str), OS(i32) }
pub type FsResult<T, E = FsError> = std::result::Result<T, E>;

#[verifier::external_body]
pub struct AnyErr { e: i32 }
pub type Result<T, E = AnyErr> = std::result::Result<T, E>;

impl From<FsError> for AnyErr {
    #[verifier::external_body]
    fn from(e: FsError) -> AnyErr { unimplemented!() }
}

#[verifier::external_body]
pub struct File { fd: i32 }

pub struct World { pub in_cur: nat, pub out_cur: nat, pub out: Seq<u8>, pub reported: nat }
pub uninterp spec fn src_bytes(f: &File) -> Seq<u8>;

pub enum StatusUpdate { Copied(u64), Size(u64) }

pub trait StatusUpdater {
    fn send(&self, update: StatusUpdate, Tracked(w): Tracked<&mut World>) -> (r: Result<()>)
        ensures final(w).out == old(w).out, final(w).in_cur == old(w).in_cur, final(w).out_cur == old(w).out_cur,
          final(w).reported == old(w).reported + (match update { StatusUpdate::Copied(n) => n as nat, _ => 0 });
}

pub struct Config { pub block_size: u64 }
pub struct CopyHandle { pub infd: File, pub outfd: File, pub config: Arc<Config> }

#[verifier::external_body]
pub fn copy_file_bytes(infd: &File, outfd: &File, bytes: u64, Tracked(w): Tracked<&mut World>) -> (r: FsResult<usize>)
    ensures match r {
        Ok(n) => n <= bytes && final(w).in_cur == old(w).in_cur + n && final(w).out_cur == old(w).out_cur + n
             && final(w).reported == old(w).reported
             && (n == 0 ==> bytes == 0 || old(w).in_cur >= src_bytes(infd).len()),
        Err(_) => true
    }
{ unimplemented!() }

impl CopyHandle {
    fn copy_bytes(&self, len: u64, updates: &Arc<dyn StatusUpdater>, Tracked(w): Tracked<&mut World>) -> (r: Result<u64>)
        requires self.config.block_size >= 1, old(w).in_cur + len <= src_bytes(&self.infd).len()
        ensures r is Ok ==> r->Ok_0 == len && final(w).in_cur == old(w).in_cur + len && final(w).reported == old(w).reported + len
    {
        let mut written = 0;
        while written < len
            invariant written <= len, self.config.block_size >= 1,
                w.in_cur == old(w).in_cur + written, w.reported == old(w).reported + written,
                old(w).in_cur + len <= src_bytes(&self.infd).len()
            decreases len - written
        {
            let bytes_to_copy = cmp::min(len - written, self.config.block_size);
            let bytes = copy_file_bytes(&self.infd, &self.outfd, bytes_to_copy, Tracked(w))? as u64;
            written += bytes;
            updates.send(StatusUpdate::Copied(bytes), Tracked(w))?;
        }

        Ok(written)
    }
}
}
fn main(){}
