use vstd::prelude::*;
use std::cmp;
use std::ops::Range;
use std::sync::Arc;
use vstd::std_specs::cmp::OrdSpec;
verus! {
#[verifier::allow(undeclared_external_trait)]
pub assume_specification<T: std::cmp::Ord + std::marker::Destruct> [std::cmp::min](a: T, b: T) -> (r: T)
    ensures T::obeys_cmp_spec() ==> r == (if a.cmp_spec(&b) is Greater { b } else { a });

pub struct Job { pub off: int, pub bytes: int }
pub struct World { pub jobs: Seq<Job> }
pub struct Config { pub block_size: u64 }
pub struct CopyHandle { pub config: Arc<Config> }
#[verifier::external_body] pub struct ThreadPool { x: u8 }
#[verifier::external_body] pub struct AnyErr { x: u8 }
pub type Result<T, E = AnyErr> = std::result::Result<T, E>;

// lifted closure stand-in: records the job
#[verifier::external_body]
fn pool_execute_job(pool: &ThreadPool, harc: Arc<CopyHandle>, bytes: u64, off: u64, Tracked(w): Tracked<&mut World>)
    ensures final(w).jobs == old(w).jobs.push(Job { off: off as int, bytes: bytes as int })
{ unimplemented!() }

pub open spec fn tiles(jobs: Seq<Job>, from: int, start: int, upto: int) -> bool
    decreases jobs.len() - from
{
    if from >= jobs.len() { start == upto }
    else { jobs[from].off == start && jobs[from].bytes > 0 && tiles(jobs, from + 1, start + jobs[from].bytes, upto) }
}

fn queue_file_range(
    handle: &Arc<CopyHandle>,
    range: Range<u64>,
    pool: &ThreadPool,
    Tracked(w): Tracked<&mut World>,
) -> (r: Result<u64>)
    requires range.start <= range.end, range.end <= i64::MAX, handle.config.block_size >= 1,
    ensures r is Ok ==> r->Ok_0 == range.end - range.start,
        final(w).jobs.len() >= old(w).jobs.len(),
        final(w).jobs.take(old(w).jobs.len() as int) == old(w).jobs,
{
    let len = range.end - range.start;
    let bsize = handle.config.block_size;
    let blocks = (len / bsize) + (if len % bsize > 0 { 1 } else { 0 });

    for blkn in 0..blocks
        invariant
            len == range.end - range.start, bsize == handle.config.block_size, bsize >= 1,
            blocks == (len / bsize) + (if len % bsize > 0 { 1int } else { 0 }),
            range.end <= i64::MAX,
            w.jobs.len() == old(w).jobs.len() + blkn,
            w.jobs.take(old(w).jobs.len() as int) == old(w).jobs,
    {
        assert(blkn * bsize < len) by (nonlinear_arith)
            requires blkn < blocks, blocks == (len / bsize) + (if len % bsize > 0 { 1int } else { 0 }), bsize >= 1;
        let harc = handle.clone();
        let bytes = cmp::min(len - (blkn * bsize), bsize);
        let off = range.start + (blkn * bsize);

        pool_execute_job(pool, harc, bytes, off, Tracked(w));
    }
    Ok(len)
}
}
fn main(){}
