use vstd::prelude::*;
verus! {
pub enum FsError { InvalidSource(&'static str), OS(i32) }
pub type Result<T, E = FsError> = std::result::Result<T, E>;
#[verifier::external_body]
pub struct File { fd: i32 }
pub struct World { pub in_cur: nat, pub out_cur: nat, pub out: Seq<u8>, pub reported: nat }

#[verifier::external_body]
fn try_copy_file_range(infd: &File, in_off: Option<&mut u64>, outfd: &File, out_off: Option<&mut u64>, bytes: u64, Tracked(w): Tracked<&mut World>) -> (r: Option<Result<usize>>)
{ unimplemented!() }

#[verifier::external_body]
fn copy_bytes_uspace(infd: &File, outfd: &File, bytes: usize, Tracked(w): Tracked<&mut World>) -> (r: Result<usize>)
{ unimplemented!() }

pub fn copy_file_bytes(infd: &File, outfd: &File, bytes: u64, Tracked(w): Tracked<&mut World>) -> Result<usize> {
    try_copy_file_range(infd, None, outfd, None, bytes, Tracked(w))
        .unwrap_or_else(|| copy_bytes_uspace(infd, outfd, bytes as usize, Tracked(w)))
}
pub fn copy_file_offset(infd: &File, outfd: &File, bytes: u64, off: i64, Tracked(w): Tracked<&mut World>) -> Result<usize> {
    let mut off_in = off as u64;
    let mut off_out = off as u64;
    try_copy_file_range(infd, Some(&mut off_in), outfd, Some(&mut off_out), bytes, Tracked(w))
        .unwrap_or_else(|| copy_bytes_uspace(infd, outfd, bytes as usize, Tracked(w)))
}
}
fn main(){}
