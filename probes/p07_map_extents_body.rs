use vstd::prelude::*;
verus! {
pub const FIEMAP_EXTENT_LAST: u32 = 1;
pub const FIEMAP_EXTENT_SHARED: u32 = 0x2000;
pub struct Extent { pub start: u64, pub end: u64, pub shared: bool }
pub enum FsError { X }
pub type Result<T, E = FsError> = std::result::Result<T, E>;
#[verifier::external_body]
pub struct File { fd: i32 }

const FIEMAP_PAGE_SIZE: usize = 32;

#[repr(C)]
#[derive(Copy, Clone, Debug)]
struct FiemapExtent {
    fe_logical: u64,  // Logical offset in bytes for the start of the extent
    fe_physical: u64, // Physical offset in bytes for the start of the extent
    fe_length: u64,   // Length in bytes for the extent
    fe_reserved64: [u64; 2],
    fe_flags: u32, // FIEMAP_EXTENT_* flags for this extent
    fe_reserved: [u32; 3],
}
impl FiemapExtent {
    fn new() -> FiemapExtent {
        FiemapExtent {
            fe_logical: 0,
            fe_physical: 0,
            fe_length: 0,
            fe_reserved64: [0; 2],
            fe_flags: 0,
            fe_reserved: [0; 3],
        }
    }
}

#[repr(C)]
#[derive(Copy, Clone, Debug)]
struct FiemapReq {
    fm_start: u64,          // Logical offset (inclusive) at which to start mapping (in)
    fm_length: u64,         // Logical length of mapping which userspace cares about (in)
    fm_flags: u32,          // FIEMAP_FLAG_* flags for request (in/out)
    fm_mapped_extents: u32, // Number of extents that were mapped (out)
    fm_extent_count: u32,   // Size of fm_extents array (in)
    fm_reserved: u32,
    fm_extents: [FiemapExtent; FIEMAP_PAGE_SIZE], // Array of mapped extents (out)
}
impl FiemapReq {
    fn new() -> FiemapReq {
        FiemapReq {
            fm_start: 0,
            fm_length: u64::MAX,
            fm_flags: 0,
            fm_mapped_extents: 0,
            fm_extent_count: FIEMAP_PAGE_SIZE as u32,
            fm_reserved: 0,
            fm_extents: [FiemapExtent::new(); FIEMAP_PAGE_SIZE],
        }
    }
}

// kernel's extent list for fd
pub uninterp spec fn kext(fd: &File) -> Seq<(int,int)>;

#[verifier::external_body]
fn fiemap(fd: &File, req: &mut FiemapReq) -> (r: Result<bool>)
    ensures match r { Ok(true) => final(req).fm_mapped_extents <= 32
        && final(req).fm_start == old(req).fm_start
        && forall|i:int| 0 <= i < final(req).fm_mapped_extents ==> (#[trigger] final(req).fm_extents[i]).fe_logical + final(req).fm_extents[i].fe_length <= i64::MAX,
       _ => true }
{ unimplemented!() }

pub fn map_extents(fd: &File) -> (r: Result<Option<Vec<Extent>>>) {
    let mut req = FiemapReq::new();
    let mut extents = Vec::with_capacity(FIEMAP_PAGE_SIZE);

    loop 
    {
        if !fiemap(fd, &mut req)? {
            return Ok(None)
        }
        if req.fm_mapped_extents == 0 {
            break;
        }

        for i in 0..req.fm_mapped_extents as usize 
           invariant req.fm_mapped_extents <= 32, 
            forall|i:int| 0 <= i < req.fm_mapped_extents ==> (#[trigger] req.fm_extents[i]).fe_logical + req.fm_extents[i].fe_length <= i64::MAX,
        {
            let e = req.fm_extents[i];
            let ext = Extent {
                start: e.fe_logical,
                end: e.fe_logical + e.fe_length,
                shared: e.fe_flags & FIEMAP_EXTENT_SHARED != 0,
            };
            extents.push(ext);
        }

        let last = req.fm_extents[(req.fm_mapped_extents - 1) as usize];
        if last.fe_flags & FIEMAP_EXTENT_LAST != 0 {
            break;
        }

        // Looks like we're going around again...
        req.fm_start = last.fe_logical + last.fe_length;
    }

    Ok(Some(extents))
}
}
fn main(){}
