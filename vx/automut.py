"""Systematic mutation of the functions under contract (development / thorough aid, DESIGN.md §3.7).
Generates small token-level mutants inside the source ranges of the extracted functions, runs the Verus part of the checks on a scratch
copy for each, and lists the survivors: every survivor is either an equivalent mutant or a hint that a contract is too weak.
Usage: python3 -m vx.automut [--max N] [--only substring] [--workers K]"""
import os
import re
import sys
import json
import time
import shutil
import random
import tempfile
from concurrent.futures import ThreadPoolExecutor

from . import driver, rtok, thorough
from .driver import REPO, VERIF
from .extract import AnchorLost
from .spec import SpecError

REL = {'<': '<=', '<=': '<', '>': '>=', '>=': '>', '==': '!=', '!=': '=='}
ARITH = {'+': '-', '-': '+'}
PAIRS = {'from': 'to', 'to': 'from', 'infd': 'outfd', 'outfd': 'infd', 'src': 'dest', 'source': 'dest', 'reader': 'writer', 'writer': 'reader',
         'next_data': 'next_hole', 'next_hole': 'next_data'}
METHODS = {'write_all': 'write', 'exists': 'is_file', 'metadata': 'symlink_metadata', 'symlink_metadata': 'metadata', 'is_err': 'is_ok', 'is_ok': 'is_err',
           'is_dir': 'is_file', 'accessed': 'modified', 'modified': 'accessed', 'uid': 'gid', 'gid': 'uid', 'rdev': 'dev', 'set_accessed': 'set_modified'}


def gen_mutants(G):
    """yield (fid, file, line, description, start_off, end_off, replacement) over the source files"""
    out = []
    seen = set()
    for fid, g in G.fns.items():
        if g.spec.external:
            continue
        path = os.path.join(REPO, g.src_path)
        src = open(path).read()
        lines = src.split('\n')
        lo = sum(len(l) + 1 for l in lines[:g.src_start - 1])
        hi = sum(len(l) + 1 for l in lines[:g.src_end])
        toks = [t for t in rtok.lex(src) if lo <= t[2] < hi]
        st = [t for t in toks if t[0] not in ('ws', 'comment')]
        # skip the signature: start after the first `{`
        try:
            b = next(i for i, t in enumerate(st) if t[1] == '{')
        except StopIteration:
            continue
        in_macro = 0
        i = b + 1
        while i < len(st):
            k, t, s0, e0 = st[i]
            # skip macro invocations (log/format arguments)
            if t == '!' and i > 0 and st[i - 1][0] == 'ident' and i + 1 < len(st) and st[i + 1][1] in ('(', '[', '{') and st[i - 1][1] != 'vec':
                depth = 0
                j = i + 1
                while j < len(st):
                    if st[j][1] in ('(', '[', '{'):
                        depth += 1
                    elif st[j][1] in (')', ']', '}'):
                        depth -= 1
                        if depth == 0:
                            break
                    j += 1
                i = j + 1
                continue
            key = (g.src_path, s0)
            if key in seen:
                i += 1
                continue
            line = src.count('\n', 0, s0) + 1
            if k == 'punct' and t in REL and not (t in ('<', '>') and (st[i - 1][0] == 'ident' and st[i - 1][1][0].isupper() or st[i - 1][1] in ('::', 'dyn', '&'))):
                out.append((fid, g.src_path, line, 'relational %s -> %s' % (t, REL[t]), s0, e0, REL[t]))
                seen.add(key)
            elif k == 'punct' and t in ARITH and st[i - 1][0] in ('ident', 'num') or (k == 'punct' and t in ARITH and st[i - 1][1] == ')'):
                if st[i + 1][1] != '>' and st[i - 1][1] not in ('=', '(', ','):
                    out.append((fid, g.src_path, line, 'arithmetic %s -> %s' % (t, ARITH[t]), s0, e0, ARITH[t]))
                    seen.add(key)
            elif k == 'num' and t in ('0', '1'):
                out.append((fid, g.src_path, line, 'constant %s -> %s' % (t, '1' if t == '0' else '0'), s0, e0, '1' if t == '0' else '0'))
                seen.add(key)
            elif k == 'punct' and t == '&&':
                out.append((fid, g.src_path, line, '&& -> ||', s0, e0, '||'))
                seen.add(key)
            elif k == 'punct' and t == '||' and st[i - 1][1] not in ('(', 'move', '=', ','):
                out.append((fid, g.src_path, line, '|| -> &&', s0, e0, '&&'))
                seen.add(key)
            elif k == 'punct' and t == '!' and st[i + 1][0] == 'ident' and st[i - 1][1] in ('(', '&&', '||', 'if', '=', 'while'):
                out.append((fid, g.src_path, line, 'negation dropped', s0, e0, ''))
                seen.add(key)
            elif k == 'ident' and t == 'true':
                out.append((fid, g.src_path, line, 'true -> false', s0, e0, 'false'))
                seen.add(key)
            elif k == 'ident' and t == 'false':
                out.append((fid, g.src_path, line, 'false -> true', s0, e0, 'true'))
                seen.add(key)
            elif k == 'ident' and t in PAIRS and st[i - 1][1] not in ('.', '::', 'let', 'mut', '|') and st[i + 1][1] not in (':', '=') and (g.src_path, s0, 'pair') not in seen \
                    and any(x[1] == PAIRS[t] for x in st[b:]):
                # the other member of a from/to-like pair is in scope in this function: use it instead (wrong-variable slip)
                seen.add((g.src_path, s0, 'pair'))
                out.append((fid, g.src_path, line, 'wrong variable `%s` -> `%s`' % (t, PAIRS[t]), s0, e0, PAIRS[t]))
            elif k == 'ident' and t in ('continue', 'break') and st[i + 1][1] == ';':
                out.append((fid, g.src_path, line, '%s -> %s' % (t, 'break' if t == 'continue' else 'continue'), s0, e0, 'break' if t == 'continue' else 'continue'))
                seen.add(key)
            elif k == 'ident' and t in METHODS and st[i - 1][1] == '.' and st[i + 1][1] == '(':
                out.append((fid, g.src_path, line, 'method `%s` -> `%s`' % (t, METHODS[t]), s0, e0, METHODS[t]))
                seen.add(key)
            elif k == 'punct' and t == ';' and st[i - 1][1] in (')', '?') and os.environ.get('AUTOMUT_DELETE', '1') == '1':
                # statement deletion: an expression statement `CALL(..);` / `CALL(..)?;` (not a `let`, `return`, assignment or macro)
                j = i - 1
                depth = 0
                while j > b:
                    if st[j][1] in (')', ']', '}'):
                        depth += 1
                    elif st[j][1] in ('(', '[', '{'):
                        if depth == 0:
                            break
                        depth -= 1
                    elif st[j][1] == ';' and depth == 0:
                        break
                    elif st[j][1] == '=>' and depth == 0:
                        j = None
                        break
                    j -= 1
                if j is not None:
                    stmt = st[j + 1:i]
                    words = [x[1] for x in stmt]
                    if stmt and words[0] not in ('let', 'return', 'break', 'continue', 'if', 'match', 'for', 'while', 'loop') and '!' not in words[:3] \
                            and not any(w in ('=', '+=', '-=', '*=') for w in words if True) and (g.src_path, stmt[0][2], 'del') not in seen:
                        seen.add((g.src_path, stmt[0][2], 'del'))
                        out.append((fid, g.src_path, line, 'statement `%s` deleted' % src[stmt[0][2]:e0][:50].replace('\n', ' '), stmt[0][2], e0, ''))
                if t == ';' and st[i - 1][1] == '?':
                    pass
            elif k == 'punct' and t == '?' and i + 1 < len(st) and st[i + 1][1] == ';':
                # statement `X?;` -> `let _ = X;` : find statement start
                j = i - 1
                depth = 0
                while j > b:
                    if st[j][1] in (')', ']', '}'):
                        depth += 1
                    elif st[j][1] in ('(', '[', '{'):
                        if depth == 0:
                            break
                        depth -= 1
                    elif st[j][1] == ';' and depth == 0:
                        break
                    j -= 1
                s_stmt = st[j + 1][2]
                if st[j + 1][1] not in ('let', 'return') and '=' not in [x[1] for x in st[j + 1:i]]:
                    out.append((fid, g.src_path, line, 'error of `%s` swallowed' % src[s_stmt:s0][:40], s_stmt, e0, 'let _ = ' + src[s_stmt:s0]))
                    seen.add(key)
            i += 1
        out += structural_mutants(fid, g, src, st, b)
    # a slice and the whole function it is cut from cover the same source text: keep one mutant per edit
    uniq = {}
    for m in out:
        uniq.setdefault((m[1], m[4], m[5], m[6]), m)
    # ordinal of a mutant among those with the same function and description, in textual order (part of its line-independent identity)
    res = []
    cnt = {}
    for m in sorted(uniq.values(), key=lambda m: (m[1], m[4], m[5])):
        k = (m[0], ' '.join(m[3].split()))
        cnt[k] = cnt.get(k, 0) + 1
        res.append(tuple(m) + (cnt[k],))
    return res


def _block_statements(st, open_i):
    """statements of the block opened at st[open_i] (`{`): list of (first_tok_index, last_tok_index) ; None when the block is not a statement block"""
    close = rtok.match_close(st, open_i)
    stmts = []
    i = open_i + 1
    start = i
    depth = 0
    while i < close:
        t = st[i][1]
        if t in ('(', '[', '{'):
            j = rtok.match_close(st, i)
            if t == '{' and depth == 0:
                # a block-like statement ends at its `}` unless followed by `else`, `.`, `?`, `;`, or an operator
                nxt = st[j + 1][1] if j + 1 < close else None
                first = st[start][1]
                if first in ('if', 'match', 'for', 'while', 'loop', 'unsafe') and nxt not in ('else', '.', '?', ';') :
                    stmts.append((start, j))
                    start = j + 1
            i = j + 1
            continue
        if t == ';' and depth == 0:
            stmts.append((start, i))
            start = i + 1
        elif t == '=>' and depth == 0:
            return None    # match arms, struct literal etc.: not a statement block
        elif t == ',' and depth == 0:
            return None
        i += 1
    return stmts


def structural_mutants(fid, g, src, st, b):
    out = []
    if os.environ.get('AUTOMUT_STRUCT', '1') != '1':
        return out
    # ---- swap adjacent statements (order of effects)
    for i in range(b, len(st)):
        if st[i][1] != '{':
            continue
        try:
            stmts = _block_statements(st, i)
        except Exception:
            continue
        if not stmts or len(stmts) < 2:
            continue
        for (a0, a1), (b0, b1) in zip(stmts, stmts[1:]):
            wa = st[a0][1]
            wb = st[b0][1]
            if wa in ('let', 'return', 'break', 'continue') or wb in ('let', 'return', 'break', 'continue'):
                continue
            ta = src[st[a0][2]:st[a1][3]]
            tb = src[st[b0][2]:st[b1][3]]
            if re.match(r'^(debug|info|warn|error|trace)!', ta) or re.match(r'^(debug|info|warn|error|trace)!', tb):
                continue
            mid = src[st[a1][3]:st[b0][2]]
            line = src.count('\n', 0, st[a0][2]) + 1
            out.append((fid, g.src_path, line, 'swap statements `%s` <-> `%s`' % (' '.join(ta.split())[:30], ' '.join(tb.split())[:30]),
                        st[a0][2], st[b1][3], tb + mid + ta))
    # ---- swap two arguments of a call when both are `&x.y`-like or plain identifiers of the same shape
    for i in range(b, len(st) - 1):
        if st[i][1] == '(' and st[i - 1][0] == 'ident' and st[i - 2][1] != '!' and st[i - 1][1] not in ('if', 'while', 'match', 'for', 'Some', 'Ok', 'Err'):
            c = rtok.match_close(st, i)
            from .vacuity import _split_top
            parts = _split_top(st, i + 1, c)
            if len(parts) < 2 or len(parts) > 5:
                continue
            texts = [src[st[a][2]:st[e - 1][3]] for a, e in parts]

            def shape(t):
                t = t.strip()
                if re.match(r'^&self\.\w+$', t):
                    return 'selfref'
                if re.match(r'^&\w+$', t):
                    return 'ref'
                if re.match(r'^\w+$', t) and not t[0].isdigit() and t not in ('self', 'true', 'false'):
                    return 'id'
                if re.match(r'^&\w+\.\w+$', t):
                    return 'fieldref'
                return None
            for x in range(len(parts)):
                for y in range(x + 1, len(parts)):
                    if shape(texts[x]) and shape(texts[x]) == shape(texts[y]) and texts[x] != texts[y]:
                        ax, ex = parts[x]
                        ay, ey = parts[y]
                        s0, e0 = st[ax][2], st[ey - 1][3]
                        rep = texts[y] + src[st[ex - 1][3]:st[ay][2]] + texts[x]
                        rep = src[s0:s0] + rep
                        # rebuild: [x][between][y] -> [y][between][x]
                        rep = texts[y] + src[st[ex - 1][3]:st[ay][2]] + texts[x]
                        line = src.count('\n', 0, s0) + 1
                        out.append((fid, g.src_path, line, 'swap arguments `%s` <-> `%s` of %s' % (texts[x].strip(), texts[y].strip(), st[i - 1][1]), s0, e0, rep))
    return out


def run_one(m, known):
    fid, path, line, desc, s0, e0, rep = m[:7]
    wd = tempfile.mkdtemp(prefix='xcpverif-am-')
    try:
        thorough.copy_sources(wd)
        p = os.path.join(wd, path)
        src = open(p).read()
        open(p, 'w').write(src[:s0] + rep + src[e0:])
        try:
            G = driver.assemble(repo=wd)
        except (AnchorLost, SpecError, driver.ToolError, rtok.LexError) as e:
            return (m, 'undecided', str(e)[:80])
        res = driver.run_verus(G, wd, threads=4)
        failed, tool, _ = driver.classify(G, res)
        if tool:
            return (m, 'undecided', tool[0][:80])
        hints = [o for o in failed if o not in known and G.obligations[o]['kind'] == 'proof-hint']
        fo = [o for o in failed if o not in known and G.obligations[o]['kind'] != 'proof-hint']
        if not fo and hints:
            return (m, 'undecided', 'only proof hints fail: %s' % hints[:2])
        if not fo and G.anchor_skipped:
            return (m, 'undecided', 'left out: %s' % sorted(G.anchor_skipped.items())[:1])
        return (m, 'killed' if fo else 'survived', ','.join(sorted({t for o in fo for t in G.obligations[o]['tags']})))
    finally:
        shutil.rmtree(wd, ignore_errors=True)


EQUIV = os.path.join(VERIF, 'mutants', 'automut_equivalent.json')


def mkey(m):
    """identity of a mutant that survives line moves: function + operator description"""
    return '%s | %s | #%d' % (m[0], ' '.join(m[3].split()), m[7] if len(m) > 7 else 1)


def load_equivalent():
    if not os.path.exists(EQUIV):
        return {}
    with open(EQUIV) as f:
        return {e['mutant']: e['why'] for e in json.load(f)['equivalent']}


def for_property(G, pid, cap=60, workers=3, seed=0):
    """thorough tier: the auto-mutants inside the functions that carry obligations of `pid` (at most `cap`, chosen by `seed`).
    Reported in the evidence; never changes the exit status (a survivor is a hint about contract strength, not a violation)."""
    fids = {o['fid'] for o in G.obligations.values() if pid in o['tags']}
    ms = [m for m in gen_mutants(G) if m[0] in fids]
    random.Random(seed).shuffle(ms)
    total = len(ms)
    ms = ms[:cap]
    from .checks import load_known
    known = {k['obligation_id'] for k in load_known() if k.get('status') == 'open' and 'obligation_id' in k}
    eq = load_equivalent()
    t0 = time.time()
    with ThreadPoolExecutor(max_workers=workers) as ex:
        results = list(ex.map(lambda m: run_one(m, known), ms))
    out = {'generated_in_these_functions': total, 'run': len(ms), 'killed': 0, 'killed_by_this_property': 0, 'undecided_ill_typed_or_anchor': 0,
           'survived_equivalent': [], 'survived_unexplained': [], 'wall_s': 0}
    for m, status, info in results:
        if status == 'killed':
            out['killed'] += 1
            if pid in info.split(','):
                out['killed_by_this_property'] += 1
        elif status == 'undecided':
            out['undecided_ill_typed_or_anchor'] += 1
        else:
            k = mkey(m)
            (out['survived_equivalent'] if k in eq else out['survived_unexplained']).append(k if k not in eq else '%s :: %s' % (k, eq[k]))
    out['wall_s'] = round(time.time() - t0, 1)
    return out


def main(argv):
    mx = None
    only = None
    workers = 4
    kind = None
    i = 0
    while i < len(argv):
        if argv[i] == '--max':
            mx = int(argv[i + 1]); i += 2; continue
        if argv[i] == '--only':
            only = argv[i + 1]; i += 2; continue
        if argv[i] == '--kind':
            kind = argv[i + 1]; i += 2; continue
        if argv[i] == '--workers':
            workers = int(argv[i + 1]); i += 2; continue
        i += 1
    G = driver.assemble()
    ms = gen_mutants(G)
    if only:
        ms = [m for m in ms if only in m[0]]
    if kind:
        ms = [m for m in ms if kind in m[3]]
    random.Random(int(os.environ.get('VERIF_SEED', '0') or 0)).shuffle(ms)
    if mx:
        ms = ms[:mx]
    from .checks import load_known
    known = {k['obligation_id'] for k in load_known() if k.get('status') == 'open' and 'obligation_id' in k}
    t0 = time.time()
    with ThreadPoolExecutor(max_workers=workers) as ex:
        results = list(ex.map(lambda m: run_one(m, known), ms))
    tally = {}
    for m, status, info in results:
        tally[status] = tally.get(status, 0) + 1
    print('automut: %d mutants in %.0fs: %s' % (len(ms), time.time() - t0, tally))
    for m, status, info in sorted(results, key=lambda r: (r[1], r[0][1], r[0][2])):
        if status != 'killed':
            print('%-9s %-40s %s:%d  %s  #%d  %s' % (status, m[0], m[1], m[2], ' '.join(m[3].split()), m[7], info))
    return 0


if __name__ == '__main__':
    sys.exit(main(sys.argv[1:]))
