"""command line: ./check <property|all|gen|lock|replay> ..."""
import os
import sys
import json
import shutil
import tempfile

from . import driver, rtok
from .extract import AnchorLost
from .spec import SpecError


def cmd_gen(args):
    G = driver.assemble()
    out = args[0] if args else '/tmp/gen.rs'
    with open(out, 'w') as f:
        f.write(G.text)
    print('wrote', out, len(G.linemap), 'lines', len(G.obligations), 'obligations')
    return 0


def cmd_try(args):
    """development helper: generate, run verus, print mapped failures"""
    canary = '--canary' in args
    args = [a for a in args if a != '--canary']
    G = driver.assemble(canary=canary)
    wd = tempfile.mkdtemp(prefix='xcpverif-')
    try:
        res = driver.run_verus(G, wd, extra=args)
        if canary:
            failed, tool, fn_status = driver.classify(G, res)
            for t in tool:
                print('TOOL', t)
            bad = [fid for fid, g in G.fns.items() if not g.spec.external and (fid + '/canary') not in failed]
            print('canaries that VERIFIED (contradictory assumptions!):', bad)
            print('canaries failed as they must: %d of %d' % (len([1 for k in failed if k.endswith('/canary')]), len([1 for g in G.fns.values() if not g.spec.external])))
            return 0
        failed, tool, fn_status = driver.classify(G, res)
        keep = '/tmp/gen.rs'
        shutil.copy(os.path.join(wd, 'gen.rs'), keep)
        for t in tool:
            print('TOOL', t)
        for f, why in sorted(G.anchor_skipped.items()):
            print('UNDECIDED left out:', f, '|', why)
        for l in res['raw_err'][:40]:
            print('RAW', l)
        for oid, ds in failed.items():
            for d in ds:
                print('FAIL', oid, '|', d['message'], '| site', d.get('site_line'), d.get('site_text'))
        j = res.get('json') or {}
        print('verus:', j.get('verification-results'), 'wall %.1fs' % res['wall_s'])
        slow = sorted(((v['ms'], k) for k, v in fn_status.items()), reverse=True)[:8]
        print('slowest:', slow)
        print('obligations:', len(G.obligations))
    finally:
        shutil.rmtree(wd, ignore_errors=True)
    return 0


def main(argv):
    if not argv:
        print(__doc__)
        return 2
    try:
        if argv[0] == 'gen':
            return cmd_gen(argv[1:])
        if argv[0] == 'try':
            return cmd_try(argv[1:])
        if argv[0] == 'seeds':
            from . import thorough
            ok = True
            for r in thorough.seeds(argv[1] if len(argv) > 1 else None, workers=4):
                exp = r.get('expected') or []
                good = (r['status'] == 'alarm' and (r.get('target') in r.get('props', []) or (exp and set(exp) <= set(r.get('props', []))))) or (not exp and r['status'] in ('silent', 'undecided'))
                ok = ok and good
                print('%-7s %-9s props=%s expected=%s %s' % (r['seed'], r['status'], r.get('props'), exp, '' if good else '  <-- UNEXPECTED'))
            return 0 if ok else 1
        if argv[0] == 'harmless':
            from . import thorough
            bad = 0
            for r in thorough.harmless(workers=4):
                print('%-8s %-11s %s' % (r['patch'], r['status'], r.get('props') or r.get('detail') or ''))
                bad += r['status'] == 'FALSE-ALARM'
            return 1 if bad else 0
        if argv[0] == 'selftest':
            G = driver.assemble()
            print('selftest: generated %d lines, %d functions, %d obligations' % (len(G.linemap), len(G.fns), len(G.obligations)))
            # non-vacuity smoke test (informational): a deliberately broken copy of the sources must fail an obligation
            try:
                import json as _json
                from . import thorough
                m = [x for x in _json.load(open(thorough.MUTANTS)) if x['id'] == 'm01'][0]
                r = thorough.run_mutant(m, set())
                print('selftest: mutant m01 (%s): %s %s' % (m['note'], r['status'], r.get('by', '')[:2] if r.get('by') else ''))
            except Exception as e:
                print('selftest: mutant smoke test could not run: %s' % e)
            return 0
        from . import checks
        return checks.main(argv)
    except (AnchorLost, SpecError, driver.ToolError, rtok.LexError) as e:
        print('UNDECIDED (exit 2): %s: %s' % (type(e).__name__, e))
        return 2
