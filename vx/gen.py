"""Build gen.rs = prelude + (functions re-extracted from /repo, with contracts attached).

Every change made to the repository text is one of the logged edit kinds
(R1..R10 of DESIGN.md §3.2); the per-function edit list goes to the evidence."""
import os
import re
import hashlib
from . import rtok, extract, spec as specmod
from .extract import AnchorLost

WORLD_PARAM = 'Tracked(w): Tracked<&mut World>'
MONO_POST = 'final(w).faults >= old(w).faults && final(w).tolerated >= old(w).tolerated'
MONO_INV = 'w.faults >= old(w).faults && w.tolerated >= old(w).tolerated'
WORLD_ARG = 'Tracked(w)'


class GenFn:
    def __init__(self, fs):
        self.spec = fs
        self.fid = fs.fid
        self.edits = []          # human readable edit log
        self.src_path = None
        self.src_start = None    # first repo line
        self.src_end = None
        self.src_hash = None
        self.out_lines = []      # list of (text_line, origin) ; origin = ('src', repo_line) | ('ob', oid) | ('glue', None)
        self.obligations = []    # list of dict(oid, kind, tags, text, origin)
        self.calls = []          # list of (callee_key, repo_line)
        self.has_self = False
        self.binders = {}
        self.shape = None


# ----------------------------------------------------------------------------
# pre-pass rewrites (text -> text, newline count preserved)
# ----------------------------------------------------------------------------

def _stmt_start(st, i):
    """index of first token of the expression that ends just before st[i] ('.'):
    walk back to the nearest `=`, `;`, `{`, `}`, `=>` or unmatched `(` / `,` at depth 0"""
    depth = 0
    j = i - 1
    while j >= 0:
        t = st[j][1]
        if st[j][0] == 'punct':
            if t in (')', ']'):
                depth += 1
            elif t in ('(', '['):
                if depth == 0:
                    return j + 1
                depth -= 1
            elif depth == 0 and t in ('=', ';', '{', '}', '=>', ','):
                return j + 1
        if depth == 0 and st[j][0] == 'ident' and t in ('return', 'let', 'in'):
            return j + 1
        j -= 1
    return 0


def _replace_spans(text, spans):
    """spans: list of (start, end, replacement); non-overlapping"""
    out = []
    pos = 0
    for s, e, r in sorted(spans):
        out.append(text[pos:s])
        # keep newline count
        lost = text[s:e].count('\n') - r.count('\n')
        if lost < 0:
            raise AnchorLost('internal: rewrite adds lines')
        out.append(r + '\n' * lost)
        pos = e
    out.append(text[pos:])
    return ''.join(out)


def rw_unwrap_or_else(text, log):
    """R3: X.unwrap_or_else(|| E)  ->  match X { Some(v__) => v__, None => E }"""
    while True:
        st = rtok.sig(rtok.lex(text))
        hit = None
        for i in range(len(st) - 5):
            if st[i][1] == '.' and st[i + 1][1] == 'unwrap_or_else' and st[i + 2][1] == '(' and st[i + 3][1] == '||':
                hit = i
                break
        if hit is None:
            return text
        i = hit
        close = rtok.match_close(st, i + 2)
        xs = _stmt_start(st, i)
        spans = [
            (st[xs][2], st[xs][2], 'match '),
            (st[i][2], st[i + 3][3], ' { Some(v__) => v__, None =>'),
            (st[close][2], st[close][3], ' }'),
        ]
        log.append('R3 unwrap_or_else -> match (receiver `%s`)' % rtok.norm(text[st[xs][2]:st[i][2]])[:60])
        text = _replace_spans(text, spans)


def rw_and_then(text, log):
    """R4: X.and_then(|v| E)  ->  match X { Ok(v) => E, Err(e__) => Err(e__) }"""
    st = rtok.sig(rtok.lex(text))
    for i in range(len(st) - 6):
        if st[i][1] == '.' and st[i + 1][1] == 'and_then' and st[i + 2][1] == '(' and st[i + 3][1] == '|' \
                and st[i + 4][0] == 'ident' and st[i + 5][1] == '|':
            close = rtok.match_close(st, i + 2)
            xs = _stmt_start(st, i)
            v = st[i + 4][1]
            spans = [
                (st[xs][2], st[xs][2], 'match '),
                (st[i][2], st[i + 5][3], ' { Ok(%s) =>' % v),
                (st[close][2], st[close][3], ', Err(e__) => Err(e__) }'),
            ]
            log.append('R4 and_then(|%s| ..) -> match' % v)
            return _replace_spans(text, spans)
    raise AnchorLost('R4: no `.and_then(|v| ..)` found')


def rw_inline_closure(text, name, log):
    """R5: `let NAME = || { BODY };` removed, every `NAME()` replaced by `{ BODY }`"""
    st = rtok.sig(rtok.lex(text))
    decl = None
    for i in range(len(st) - 5):
        if st[i][1] == 'let' and st[i + 1][1] == name and st[i + 2][1] == '=' and st[i + 3][1] == '||' and st[i + 4][1] == '{':
            close = rtok.match_close(st, i + 4)
            if st[close + 1][1] != ';':
                raise AnchorLost('R5: closure %s not followed by `;`' % name)
            decl = (i, close)
            break
    if decl is None:
        if not any(t[1] == name for t in st):
            log.append('R5 closure `%s` not present (already inlined in the source): nothing to do' % name)
            return text
        raise AnchorLost('R5: closure `let %s = || {..};` not found' % name)
    i, close = decl
    body = text[st[i + 4][2]:st[close][3]]
    body1 = ' '.join(body.split())
    spans = [(st[i][2], st[close + 1][3], '')]
    uses = 0
    for j in range(close + 2, len(st) - 2):
        if st[j][1] == name and st[j + 1][1] == '(' and st[j + 2][1] == ')' and st[j - 1][1] not in ('.', '::'):
            spans.append((st[j][2], st[j + 2][3], body1))
            uses += 1
    # any other mention of NAME means it escapes: refuse
    mentions = sum(1 for t in st if t[1] == name)
    if mentions != uses + 1:
        raise AnchorLost('R5: closure %s is used other than by direct call' % name)
    log.append('R5 closure `%s` inlined at %d call(s)' % (name, uses))
    return _replace_spans(text, spans)



def rw_guard_to_if(text, log):
    """R11: in a match whose last arm is `_ => LIT`, every arm `PATH if G => E` becomes `PATH => if G { E } else { LIT }`.
    Valid because (checked here) each guarded pattern is a plain enum path that occurs in exactly one arm, so a failed
    guard can only fall through to the final wildcard arm, whose value is a literal without effects.
    (Verus mis-handles an early return inside a guarded arm when a &mut ghost parameter is live.)"""
    st = rtok.sig(rtok.lex(text))
    done = 0
    for mi in range(len(st)):
        if st[mi][1] != 'match' or st[mi][0] != 'ident':
            continue
        j = mi + 1
        while st[j][1] != '{':
            if st[j][1] in ('(', '['):
                j = rtok.match_close(st, j)
            j += 1
        mopen, mclose = j, rtok.match_close(st, j)
        # split arms
        arms = []
        k = mopen + 1
        while k < mclose:
            a0 = k
            depth = 0
            arrow = None
            guard = None
            while k < mclose:
                t = st[k][1]
                if st[k][0] == 'punct' and t in ('(', '[', '{'):
                    k = rtok.match_close(st, k)
                elif t == 'if' and guard is None and arrow is None:
                    guard = k
                elif t == '=>':
                    arrow = k
                    break
                k += 1
            if arrow is None:
                break
            e0 = arrow + 1
            if st[e0][1] == '{':
                e1 = rtok.match_close(st, e0)
                k = e1 + 1
                if k < mclose and st[k][1] == ',':
                    k += 1
            else:
                k = e0
                while k < mclose and st[k][1] != ',':
                    if st[k][1] in ('(', '[', '{'):
                        k = rtok.match_close(st, k)
                    k += 1
                e1 = k - 1
                if k < mclose:
                    k += 1
            arms.append((a0, guard, arrow, e0, e1))
        if not any(a[1] is not None for a in arms):
            continue
        last = arms[-1]
        pat_last = [x[1] for x in st[last[0]:last[2]]]
        lit = st[last[3]:last[4] + 1]
        if pat_last != ['_'] or len(lit) != 1 or lit[0][1] not in ('true', 'false') and lit[0][0] != 'num':
            raise AnchorLost('R11: match with guards does not end in `_ => literal`')
        pats = [' '.join(x[1] for x in st[a[0]:(a[1] if a[1] is not None else a[2])]) for a in arms]
        spans = []
        for a, ptxt in zip(arms, pats):
            if a[1] is None:
                continue
            if pats.count(ptxt) != 1 or not re.match(r'^\w+( :: \w+)+$', ptxt):
                raise AnchorLost('R11: guarded pattern `%s` is not a unique plain enum path' % ptxt)
            g0, arrow, e0, e1 = a[1], a[2], a[3], a[4]
            gtxt = text[st[g0 + 1][2]:st[arrow - 1][3]]
            spans.append((st[g0][2], st[arrow][3], '=> if ' + gtxt + ' {'))
            spans.append((st[e1][3], st[e1][3], ' } else { ' + lit[0][1] + ' }'))
            done += 1
        log.append('R11 %d guarded arm(s) `P if G => E` -> `P => if G { E } else { %s }`' % (len([a for a in arms if a[1] is not None]), lit[0][1]))
        return _replace_spans(text, spans)
    # no guarded match in this body (the source spells the table without guards): nothing to rewrite
    log.append('R11 no match with guards in this body: nothing to rewrite')
    return text


def rw_for_continue(text, log):
    """R12: Verus rejects `continue` inside `for`.  A range loop `for I in LO..HI { BODY }` whose own body contains `continue` becomes
       { let mut I = LO; let I__end = HI; while I < I__end { let I__cur = I; I = I + 1; { let I = I__cur; BODY } } }
    Same iteration order, bounds evaluated once, BODY sees the same value of I, `continue` proceeds to the next index.
    Returns (text, {loop_ordinal: (invariant_text, decreases_text)})."""
    extras = {}
    st = rtok.sig(rtok.lex(text))
    fn_open = next(i for i, t in enumerate(st) if t[1] == '{')
    loops = find_loops(st, fn_open + 1, len(st) - 1)
    spans = []
    for n, (kw_i, lo_i, lc_i) in enumerate(loops, 1):
        if st[kw_i][1] != 'for':
            continue
        # `continue` at this loop's own level (not inside a nested loop)
        nested = [(a, b) for (k2, a, b) in loops if a > lo_i and b < lc_i]
        own = False
        for j in range(lo_i + 1, lc_i):
            if st[j][0] == 'ident' and st[j][1] == 'continue' and not any(a < j < b for a, b in nested):
                own = True
        if not own:
            continue
        # shape: for IDENT in LO .. HI {
        if not (st[kw_i + 1][0] == 'ident' and st[kw_i + 2][1] == 'in'):
            raise AnchorLost('R12: `continue` in a `for` loop that is not `for x in lo..hi`')
        dd = None
        for j in range(kw_i + 3, lo_i):
            if st[j][1] == '..':
                dd = j
        if dd is None:
            raise AnchorLost('R12: `continue` in a `for` loop over a non-range iterator (not supported by Verus)')
        ident = st[kw_i + 1][1]
        lo_txt = text[st[kw_i + 3][2]:st[dd - 1][3]]
        hi_txt = text[st[dd + 1][2]:st[lo_i - 1][3]]
        head = '{ let mut %s = %s; let %s__end = %s; while %s < %s__end ' % (ident, lo_txt, ident, hi_txt, ident, ident)
        spans.append((st[kw_i][2], st[lo_i][2], head))
        spans.append((st[lo_i][3], st[lo_i][3], ' let %s__cur = %s; %s = %s + 1; { let %s = %s__cur;' % (ident, ident, ident, ident, ident, ident)))
        spans.append((st[lc_i][3], st[lc_i][3], ' } }'))
        extras[n] = ('(%s <= %s__end || %s == %s) && %s__end == (%s)' % (ident, ident, ident, lo_txt, ident, hi_txt), '%s__end - %s' % (ident, ident))
        log.append('R12 `for %s in %s..%s` containing `continue` rewritten to an index `while` loop' % (ident, lo_txt, hi_txt))
    if spans:
        text = _replace_spans(text, spans)
    return text, extras


def rw_loop_break_head(text, log):
    """R13: `loop { if C { break; } REST }` -> `while !(C) { REST }` (definitional identity; Verus learns the exit condition of a `while`,
    not of a `loop` whose first statement breaks).  Applied automatically; only this exact shape."""
    while True:
        st = rtok.sig(rtok.lex(text))
        hit = None
        for i in range(len(st) - 8):
            if st[i][0] == 'ident' and st[i][1] == 'loop' and st[i + 1][1] == '{' and st[i + 2][1] == 'if' and st[i - 1][1] not in ('.', '::'):
                # condition runs to the `{` of the if
                j = i + 3
                while st[j][1] != '{':
                    if st[j][1] in ('(', '['):
                        j = rtok.match_close(st, j)
                    j += 1
                close = rtok.match_close(st, j)
                inner = [t[1] for t in st[j + 1:close]]
                if inner in (['break', ';'], ['break']) and st[close + 1][1] != 'else':
                    hit = (i, j, close)
                    break
        if hit is None:
            return text
        i, j, close = hit
        cond = text[st[i + 3][2]:st[j - 1][3]]
        spans = [(st[i][2], st[i + 1][2], 'while !(%s) ' % cond), (st[i + 2][2], st[close][3], '')]
        log.append('R13 `loop { if %s { break; } .. }` -> `while !(%s) { .. }`' % (' '.join(cond.split()), ' '.join(cond.split())))
        text = _replace_spans(text, spans)


def rw_drop_inner_use(text, log):
    """D1 inside bodies: `use path;` statements in a function body are dropped, so that names resolve to the prelude stand-ins
    (a real `use std::fs::OpenOptions;` would otherwise shadow the stand-in of the same name)."""
    st = rtok.sig(rtok.lex(text))
    spans = []
    i = 0
    n = 0
    while i < len(st):
        if st[i][0] == 'ident' and st[i][1] == 'use' and (i == 0 or st[i - 1][1] in ('{', ';', '}')):
            j = i
            while j < len(st) and st[j][1] != ';':
                if st[j][1] in ('{',):
                    j = rtok.match_close(st, j)
                j += 1
            if j < len(st):
                spans.append((st[i][2], st[j][3], ''))
                n += 1
                i = j
        i += 1
    if spans:
        log.append('D1 %d `use` statement(s) inside the body dropped' % n)
        text = _replace_spans(text, spans)
    return text


def rw_spawn_calls(text, log):
    """R14: `thread::spawn(move || CALLEE(ARGS))` -> `spawn__CALLEE(ARGS)`: the spawned call is recorded by a stand-in that demands the callee's
    precondition at spawn time and returns a join handle carrying the (prophetic) result.  Closures capturing the ghost token are rejected by Verus.
    Also R15: closure parameter `|_|` -> `|_e|` (Verus rejects `_` closure parameters)."""
    n = 0
    while True:
        st = rtok.sig(rtok.lex(text))
        hit = None
        for i in range(len(st) - 8):
            if st[i][1] == 'thread' and st[i + 1][1] == '::' and st[i + 2][1] == 'spawn' and st[i + 3][1] == '(' and st[i + 4][1] == 'move' and st[i + 5][1] == '||' \
                    and st[i + 6][0] == 'ident' and st[i + 7][1] == '(':
                inner_close = rtok.match_close(st, i + 7)
                outer_close = rtok.match_close(st, i + 3)
                if outer_close == inner_close + 1:
                    hit = (i, inner_close, outer_close)
                    break
        if hit is None:
            # second shape: thread::spawn(move || -> T { RECV.METHOD(ARGS) })  ->  spawn__METHOD(RECV, ARGS)
            hit2 = None
            for i in range(len(st) - 10):
                if st[i][1] == 'thread' and st[i + 1][1] == '::' and st[i + 2][1] == 'spawn' and st[i + 3][1] == '(' and st[i + 4][1] == 'move' and st[i + 5][1] == '||' and st[i + 6][1] == '->':
                    oc = rtok.match_close(st, i + 3)
                    j = i + 7
                    while st[j][1] != '{':
                        if st[j][1] in ('(', '['):
                            j = rtok.match_close(st, j)
                        j += 1
                    bc = rtok.match_close(st, j)
                    if bc + 1 == oc and st[j + 1][0] == 'ident' and st[j + 2][1] == '.' and st[j + 3][0] == 'ident' and st[j + 4][1] == '(' and rtok.match_close(st, j + 4) == bc - 1:
                        hit2 = (i, j, bc, oc)
                        break
            if hit2 is None:
                break
            i, j, bc, oc = hit2
            recv, meth = st[j + 1][1], st[j + 3][1]
            args = text[st[j + 4][3]:st[bc - 1][2]]
            text = _replace_spans(text, [(st[i][2], st[oc][3], 'spawn__%s(%s, %s)' % (meth, recv, ' '.join(args.split())))])
            n += 1
            continue
        i, ic, oc = hit
        callee = st[i + 6][1]
        spans = [(st[i][2], st[i + 6][3], 'spawn__' + callee), (st[oc][2], st[oc][3], '')]
        text = _replace_spans(text, spans)
        n += 1
    if n:
        log.append('R14 %d `thread::spawn(move || f(args))` -> `spawn__f(args)`' % n)
    st = rtok.sig(rtok.lex(text))
    spans = []
    for i in range(len(st) - 2):
        if st[i][1] == '|' and st[i + 1][1] == '_' and st[i + 2][1] == '|':
            spans.append((st[i + 1][2], st[i + 1][3], '_e'))
    if spans:
        text = _replace_spans(text, spans)
        log.append('R15 %d closure parameter(s) `|_|` -> `|_e|`' % len(spans))
    return text


META_CALLS = ('metadata', 'symlink_metadata', 'file_type')


def _receiver_is_metadata(st, i, body_open):
    """st[i] is the method name of `RECV.is_dir()`: does RECV denote a Metadata / FileType value?  Decided syntactically:
    RECV ends in a `metadata()` / `symlink_metadata()` / `file_type()` call (optionally followed by `?`), or RECV is a local variable
    whose `let` initialiser ends in such a call or whose declared type mentions Metadata / FileType."""
    j = i - 2          # token before the `.`
    if j < 0:
        return False
    if st[j][1] == '?':
        j -= 1
    if st[j][1] == ')':
        # find the call name
        d = 0
        k = j
        while k >= 0:
            if st[k][1] in (')', ']'):
                d += 1
            elif st[k][1] in ('(', '['):
                d -= 1
                if d == 0:
                    break
            k -= 1
        return k >= 1 and st[k - 1][1] in META_CALLS
    if st[j][0] == 'ident' and st[j - 1][1] not in ('.', '::'):
        name = st[j][1]
        # nearest preceding `let [mut] name [: T] = INIT ;`
        k = j - 1
        while k > body_open:
            if st[k][1] == 'let' and (st[k + 1][1] == name or (st[k + 1][1] == 'mut' and st[k + 2][1] == name)):
                e = k
                d = 0
                while e < j and not (st[e][1] == ';' and d == 0):
                    if st[e][1] in ('(', '[', '{'):
                        d += 1
                    elif st[e][1] in (')', ']', '}'):
                        d -= 1
                    e += 1
                words = [x[1] for x in st[k:e]]
                if 'Metadata' in words or 'FileType' in words:
                    return True
                # initialiser ends in a metadata call (possibly `?`)
                w = [x for x in words if x not in ('?',)]
                for c in META_CALLS:
                    if len(w) >= 3 and w[-3:] == [c, '(', ')']:
                        return True
                return False
            k -= 1
        # closure parameter of a combinator applied to a metadata call:  X.symlink_metadata().map(|m| m.is_file())
        k = j - 1
        while k > body_open + 2:
            if st[k][1] == '|' and st[k - 1][1] == name and st[k - 2][1] == '|':
                q = k - 3
                d = 0
                while q > body_open:
                    if st[q][1] in (')', ']', '}'):
                        d += 1
                    elif st[q][1] in ('(', '[', '{'):
                        if d == 0:
                            break
                        d -= 1
                    q -= 1
                return (q - 5 > body_open and st[q][1] == '(' and st[q - 1][1] in ('map', 'map_or', 'is_ok_and', 'is_some_and', 'and_then', 'map_or_else')
                        and st[q - 2][1] == '.' and st[q - 3][1] == ')' and st[q - 4][1] == '(' and st[q - 5][1] in META_CALLS)
            k -= 1
    return False


def rw_flatten_results(text, log):
    """R21 (automatic): a `for` loop over `ITER.flatten()` / `ITER.filter_map(|e| e.ok())` / `ITER.filter_map(Result::ok)` is the loop over ITER
    whose body runs for the `Ok` items only:   for X in ITER { match X { Ok(X) => { BODY } Err(_) => {} } }   (definition of `flatten` over an
    iterator of `Result`s).  The contracts speak about the items ITER delivers, errors included, so the desugared form is what they are checked
    against.  Newlines are preserved."""
    n = 0
    while True:
        st = rtok.sig(rtok.lex(text))
        hit = None
        for i in range(len(st) - 6):
            if st[i][1] != 'for' or st[i + 1][0] != 'ident' or st[i + 2][1] != 'in' or st[i - 1][1] in ('.', '::'):
                continue
            # find the body `{` of this loop: first `{` at depth 0 after `in`
            j = i + 3
            d = 0
            while j < len(st):
                u = st[j][1]
                if u in ('(', '['):
                    d += 1
                elif u in (')', ']'):
                    d -= 1
                elif u == '{' and d == 0:
                    break
                j += 1
            if j >= len(st):
                continue
            # adapter directly before the body?
            k = j - 1
            span = None
            if st[k][1] == ')' and st[k - 1][1] == '(' and st[k - 2][1] == 'flatten' and st[k - 3][1] == '.':
                span = (k - 3, k)
            elif st[k][1] == ')':
                o = k
                dd = 0
                while o > i:
                    if st[o][1] == ')':
                        dd += 1
                    elif st[o][1] == '(':
                        dd -= 1
                        if dd == 0:
                            break
                    o -= 1
                if st[o - 1][1] == 'filter_map' and st[o - 2][1] == '.':
                    inner = [x[1] for x in st[o + 1:k]]
                    if inner == ['Result', '::', 'ok'] or (len(inner) == 8 and inner[0] == '|' and inner[2] == '|' and inner[3] == inner[1] and inner[4:] == ['.', 'ok', '(', ')']):
                        span = (o - 2, k)
            if span:
                hit = (i, j, span)
                break
        if hit is None:
            break
        i, j, (a, b) = hit
        x = st[i + 1][1]
        close = rtok.match_close(st, j)
        pieces = [
            (st[a][2], st[b][3], ''),
            (st[j][3], st[j][3], ' match %s { Ok(%s) => {' % (x, x)),
            (st[close][2], st[close][2], '} Err(_vx_e) => {} } '),
        ]
        text = _replace_spans(text, pieces)
        n += 1
    if n:
        log.append('R21 %d loop(s) over `.flatten()` / `.filter_map(|e| e.ok())` of an iterator of Results desugared to a `match` on each item' % n)
    return text


def rw_continue_to_return(body, tail, log):
    """R22: inside a loop-body slice, a `continue;` that belongs to the sliced loop itself ends this iteration: in the slice function that
    is `return <tail>;` (the value the slice returns when the body falls through)."""
    st = rtok.sig(rtok.lex(body))
    loops = find_loops(st, 0, len(st) - 1)
    inner = [(lo, lc) for (_k, lo, lc) in loops]
    spans = []
    for i, t in enumerate(st):
        if t[0] == 'ident' and t[1] == 'continue' and st[i + 1][1] == ';' and not any(lo < i < lc for lo, lc in inner):
            spans.append((t[2], t[3], 'return ' + tail.strip().rstrip(';')))
    if spans:
        log.append('R22 %d `continue` of the sliced loop -> `return %s`' % (len(spans), tail.strip()))
        return _replace_spans(body, spans)
    return body


def rw_no_panic(text, log):
    """R23 (automatic): `assert!(c, ..)`, `assert_eq!(a, b, ..)`, `assert_ne!(a, b, ..)`, `panic!(..)`, `unreachable!(..)`, `todo!()` in extracted
    code become the obligation that the condition holds (resp. that the point is unreachable): `assert(c)` / `assert(a == b)` / `assert(false)`.
    A panic in a worker or pool thread is swallowed by the thread machinery (the process can still exit 0), so code under contract must not
    be able to panic; the one deliberate abort (a failed status send inside a pool job) is rewritten to `verif_panic!` by its contract
    beforehand and is not touched here.  `debug_assert*!` is left alone (compiled out of release builds)."""
    n = 0
    while True:
        st = rtok.sig(rtok.lex(text))
        hit = None
        for i in range(len(st) - 2):
            if st[i][0] == 'ident' and st[i][1] in ('assert', 'assert_eq', 'assert_ne', 'panic', 'unreachable', 'todo') and st[i + 1][1] == '!' \
                    and st[i + 2][1] in ('(', '[', '{') and st[i - 1][1] not in ('.', '::', '_'):
                hit = i
                break
        if hit is None:
            break
        i = hit
        close = rtok.match_close(st, i + 2)
        kind = st[i][1]
        parts = _split_args(st, i + 2, close)
        argt = [text[st[a][2]:st[b - 1][3]] for a, b in parts]
        if kind == 'assert' and argt:
            rep = 'assert(%s)' % argt[0]
        elif kind == 'assert_eq' and len(argt) >= 2:
            rep = 'assert((%s) == (%s))' % (argt[0], argt[1])
        elif kind == 'assert_ne' and len(argt) >= 2:
            rep = 'assert((%s) != (%s))' % (argt[0], argt[1])
        else:
            rep = '{ assert(false); verif_panic!() }'
        text = _replace_spans(text, [(st[i][2], st[close][3], rep)])
        n += 1
    if n:
        log.append('R23 %d assert!/panic!-family macro(s) -> the obligation that they cannot fire' % n)
    return text


_PROBE_DEFS = [
    # std's own definitions (library/std/src/path.rs): is_dir() = fs::metadata(self).map(|m| m.is_dir()).unwrap_or(false), likewise is_file();
    # is_symlink() = fs::symlink_metadata(self).map(|m| m.is_symlink()).unwrap_or(false)
    (r'\.metadata\(\)\s*\.map\(\s*\|\s*(\w+)\s*\|\s*\1\.(is_dir|is_file)\(\)\s*\)\s*\.unwrap_or\(\s*false\s*\)', r'.\2()'),
    (r'\.metadata\(\)\s*\.map_or\(\s*false\s*,\s*\|\s*(\w+)\s*\|\s*\1\.(is_dir|is_file)\(\)\s*\)', r'.\2()'),
    (r'\.metadata\(\)\s*\.is_ok_and\(\s*\|\s*(\w+)\s*\|\s*\1\.(is_dir|is_file)\(\)\s*\)', r'.\2()'),
    (r'\.symlink_metadata\(\)\s*\.map\(\s*\|\s*(\w+)\s*\|\s*\1\.is_symlink\(\)\s*\)\s*\.unwrap_or\(\s*false\s*\)', r'.is_symlink()'),
    (r'\.symlink_metadata\(\)\s*\.map_or\(\s*false\s*,\s*\|\s*(\w+)\s*\|\s*\1\.is_symlink\(\)\s*\)', r'.is_symlink()'),
    (r'\.symlink_metadata\(\)\s*\.is_ok_and\(\s*\|\s*(\w+)\s*\|\s*\1\.is_symlink\(\)\s*\)', r'.is_symlink()'),
]


def rw_probe_defs(text, log):
    """R29 (automatic): std's definitions of the path probes, spelled out, are folded back into the probe: `P.metadata().map(|m| m.is_dir())
    .unwrap_or(false)` is `P.is_dir()` (same for `is_file`; `symlink_metadata` .. `is_symlink`; also the `map_or(false, ..)` and
    `is_ok_and(..)` spellings).  The probes are modelled as exact answers (A-probe) while a stat can fail in the model, so without this the two
    spellings of one std function would be judged differently.  Newlines inside the matched text are kept."""
    n = 0
    for pat, rep in _PROBE_DEFS:
        def sub(m):
            nonlocal n
            n += 1
            return m.expand(rep) + '\n' * m.group(0).count('\n')
        text = re.sub(pat, sub, text)
    if n:
        log.append('R29 %d spelled-out std definition(s) of is_dir/is_file/is_symlink folded back into the probe' % n)
    return text


def rw_log_errno(text, log):
    """R28 (automatic): in a function that reads `errno` (`last_os_error`) a log macro (`debug!`, `info!`, `warn!`, `error!`, `trace!`,
    `print*!`, `eprint*!`) is not erased but becomes `log_line()`, a stand-in that may replace errno (formatting a `File` readlinks under
    -vv, the write to stdout/stderr can fail): a log line between a raw libc call and the reading of its errno loses the kernel's answer."""
    if 'last_os_error' not in text:
        return text
    n = 0
    while True:
        st = rtok.sig(rtok.lex(text))
        hit = None
        for i in range(len(st) - 2):
            if st[i][0] == 'ident' and st[i][1] in ('debug', 'info', 'warn', 'error', 'trace', 'print', 'println', 'eprint', 'eprintln') \
                    and st[i + 1][1] == '!' and st[i + 2][1] in ('(', '[', '{') and (i == 0 or st[i - 1][1] not in ('.', '::', '_')):
                hit = i
                break
        if hit is None:
            break
        close = rtok.match_close(st, hit + 2)
        text = _replace_spans(text, [(st[hit][2], st[close][3], 'log_line()')])
        n += 1
    if n:
        log.append('R28 %d log macro(s) in an errno-reading function -> log_line() (may replace errno)' % n)
    return text


def rw_matches(text, log):
    """R25 (automatic): `matches!(E, P)` / `matches!(E, P if G)` -> `(match E { P => true, _ => false })` (std's definition; the arguments of a
    std macro are opaque to Verus, so a call taking the world token inside it could not be elaborated)."""
    n = 0
    while True:
        st = rtok.sig(rtok.lex(text))
        hit = None
        for i in range(len(st) - 2):
            if st[i][0] == 'ident' and st[i][1] == 'matches' and st[i + 1][1] == '!' and st[i + 2][1] == '(' and st[i - 1][1] not in ('.', '::'):
                hit = i
                break
        if hit is None:
            break
        i = hit
        close = rtok.match_close(st, i + 2)
        parts = _split_args(st, i + 2, close)
        if len(parts) < 2:
            break
        scrut = text[st[parts[0][0]][2]:st[parts[0][1] - 1][3]]
        pat = text[st[parts[1][0]][2]:st[parts[-1][1] - 1][3]]
        text = _replace_spans(text, [(st[i][2], st[close][3], '(match %s { %s => true, _ => false })' % (scrut, pat))])
        n += 1
    if n:
        log.append('R25 %d `matches!(E, P)` -> `match E { P => true, _ => false }`' % n)
    return text


def rw_result_combinators(text, eff, log):
    """R26 (automatic): `X.or_else(|e| B)` -> `(match X { Ok(v__) => Ok(v__), Err(e) => B })` and `X.and_then(|v| B)` ->
    `(match X { Ok(v) => B, Err(e__) => Err(e__) })` (std's definitions of the Result combinators) where the closure body B calls a
    function that takes the world token: Verus cannot pass the `&mut` ghost token into a closure, and without the rewrite the effects of B
    would be invisible.  Other closures are left alone."""
    n = 0
    while True:
        st = rtok.sig(rtok.lex(text))
        hit = None
        for i in range(1, len(st) - 6):
            if st[i][1] == '.' and st[i + 1][1] in ('or_else', 'and_then') and st[i + 2][1] == '(' and st[i + 3][1] == '|' \
                    and (st[i + 4][0] == 'ident' or st[i + 4][1] == '_') and st[i + 5][1] == '|':
                close = rtok.match_close(st, i + 2)
                if any(st[k][0] == 'ident' and st[k + 1][1] == '(' and
                       (call_key(st, k) in eff or ('*::' + st[k][1]) in eff) for k in range(i + 6, close - 1)):
                    hit = (i, close)
                    break
        if hit is None:
            break
        i, close = hit
        xs = _stmt_start(st, i)
        v = st[i + 4][1]
        if v == '_':
            v = '_e'
        if st[i + 1][1] == 'or_else':
            spans = [(st[xs][2], st[xs][2], '(match '), (st[i][2], st[i + 5][3], ' { Ok(v__) => Ok(v__), Err(%s) =>' % v), (st[close][2], st[close][3], ' })')]
        else:
            spans = [(st[xs][2], st[xs][2], '(match '), (st[i][2], st[i + 5][3], ' { Ok(%s) =>' % v), (st[close][2], st[close][3], ', Err(e__) => Err(e__) })')]
        text = _replace_spans(text, spans)
        n += 1
    if n:
        log.append('R26 %d Result combinator(s) whose closure has effects -> match (std definition)' % n)
    return text


def rw_ufcs_ext(text, log):
    """R27 (automatic): a fully qualified call of an extension-trait method, `[std::os::unix::fs::]MetadataExt::blocks(&meta)`, is the method
    call `meta.blocks()` (the stand-ins carry the extension methods as inherent methods)."""
    n = 0
    while True:
        st = rtok.sig(rtok.lex(text))
        hit = None
        for i in range(len(st) - 4):
            if st[i][0] == 'ident' and st[i][1] in ('MetadataExt', 'PermissionsExt', 'FileTypeExt', 'OpenOptionsExt', 'FileExt') and st[i + 1][1] == '::' \
                    and st[i + 2][0] == 'ident' and st[i + 3][1] == '(' and st[i + 4][1] == '&':
                hit = i
                break
        if hit is None:
            break
        i = hit
        a = i
        while a >= 2 and st[a - 1][1] == '::' and st[a - 2][0] == 'ident':
            a -= 2
        close = rtok.match_close(st, i + 3)
        parts = _split_args(st, i + 3, close)
        recv = text[st[parts[0][0] + 1][2]:st[parts[0][1] - 1][3]]
        if recv.startswith('mut '):
            recv = recv[4:]
        rest = ', '.join(text[st[x][2]:st[y - 1][3]] for x, y in parts[1:])
        text = _replace_spans(text, [(st[a][2], st[close][3], '(%s).%s(%s)' % (recv, st[i + 2][1], rest))])
        n += 1
    if n:
        log.append('R27 %d fully qualified extension-trait call(s) `Ext::m(&x, ..)` -> `x.m(..)`' % n)
    return text


def rw_std_prefix(text, log):
    """R24 (automatic): a fully qualified `std::fs::f(..)` / `std::io::..` / `std::cmp::..` / `std::thread::..` names the same item as the
    `fs::f` the file imports; the stand-ins live in modules of those names, so the `std::` prefix is dropped."""
    st = rtok.sig(rtok.lex(text))
    spans = []
    for i in range(len(st) - 3):
        if st[i][1] == 'std' and st[i + 1][1] == '::' and st[i + 2][1] in ('fs', 'io', 'cmp', 'thread') and st[i + 3][1] == '::' and st[i - 1][1] != '::':
            spans.append((st[i][2], st[i + 2][2], ''))
        elif st[i][1] == 'std' and st[i + 1][1] == '::' and st[i + 2][1] == 'path' and st[i + 3][1] == '::' and st[i - 1][1] != '::':
            # `std::path::Component` etc.: the path stand-ins (Path, PathBuf, Component) live at the crate root
            spans.append((st[i][2], st[i + 3][3], ''))
    if spans:
        log.append('R24 %d `std::` prefix(es) of fs/io/cmp/thread/path paths dropped' % len(spans))
        return _replace_spans(text, spans)
    return text


def rw_closure_underscore(text, log):
    """R15 (automatic): closure parameter `|_|` -> `|_e|` (Verus rejects `_` closure parameters)"""
    st = rtok.sig(rtok.lex(text))
    spans = []
    for i in range(len(st) - 2):
        if st[i][1] == '|' and st[i + 1][1] == '_' and st[i + 2][1] == '|':
            spans.append((st[i + 1][2], st[i + 1][3], '_e'))
    if spans:
        text = _replace_spans(text, spans)
        log.append('R15 %d closure parameter(s) `|_|` -> `|_e|`' % len(spans))
    return text


def rw_map(text, log):
    """R16: X.map(|v| E)  ->  match X { Ok(v) => Ok(E), Err(e__) => Err(e__) }   (Result::map; std's definition.  A closure without a
    written specification gives Verus no fact about its result.)"""
    st = rtok.sig(rtok.lex(text))
    for i in range(len(st) - 6):
        if st[i][1] == '.' and st[i + 1][1] == 'map' and st[i + 2][1] == '(' and st[i + 3][1] == '|' \
                and st[i + 4][0] == 'ident' and st[i + 5][1] == '|':
            close = rtok.match_close(st, i + 2)
            xs = _stmt_start(st, i)
            v = st[i + 4][1]
            spans = [
                (st[xs][2], st[xs][2], 'match '),
                (st[i][2], st[i + 5][3], ' { Ok(%s) => Ok(' % v),
                (st[close][2], st[close][3], '), Err(e__) => Err(e__) }'),
            ]
            log.append('R16 Result::map(|%s| ..) -> match' % v)
            return _replace_spans(text, spans)
    raise AnchorLost('R16: no `.map(|v| ..)` found')


def rw_vecslice(text, names, log):
    """R8: `&mut NAME[` -> `&mut NAME.as_mut_slice()[` ; `&NAME[` -> `&NAME.as_slice()[`"""
    st = rtok.sig(rtok.lex(text))
    spans = []
    for i in range(len(st) - 3):
        if st[i][1] == '&' and st[i + 1][1] == 'mut' and st[i + 2][1] in names and st[i + 3][1] == '[':
            spans.append((st[i + 2][3], st[i + 2][3], '.as_mut_slice()'))
        elif st[i][1] == '&' and st[i + 1][1] in names and st[i + 2][1] == '[':
            spans.append((st[i + 1][3], st[i + 1][3], '.as_slice()'))
    if not spans:
        raise AnchorLost('R8: no `&mut %s[..]` found' % '/'.join(names))
    log.append('R8 Vec index -> slice index at %d site(s)' % len(spans))
    return _replace_spans(text, spans)


def rw_literal(text, arg, log):
    """literal token-sequence rewrite:  Rk :: from => to"""
    label, _, rest = arg.partition('::')
    frm, _, to = rest.partition('=>')
    want = [t[1] for t in rtok.sig(rtok.lex(frm.strip()))]
    st = rtok.sig(rtok.lex(text))
    hits = []
    for i in range(len(st) - len(want) + 1):
        if [x[1] for x in st[i:i + len(want)]] == want:
            hits.append(i)
    if len(hits) != 1:
        raise AnchorLost('%s: literal `%s` found %d times' % (label.strip(), frm.strip(), len(hits)))
    i = hits[0]
    log.append('%s `%s` -> `%s`' % (label.strip(), frm.strip(), to.strip()))
    return _replace_spans(text, [(st[i][2], st[i + len(want) - 1][3], to.strip())])


def rw_lift_job(text, arg, log):
    """R6: `RECV.execute(move || { BODY });` -> `CALL;` and BODY returned for a separate fn.
    arg: 'callname(args...)'"""
    st = rtok.sig(rtok.lex(text))
    # `.execute(move || EXPR)` without braces is the same closure as `.execute(move || { EXPR })`
    for i in range(len(st) - 6):
        if st[i][1] == '.' and st[i + 1][1] == 'execute' and st[i + 2][1] == '(' and st[i + 3][1] == 'move' \
                and st[i + 4][1] == '||' and st[i + 5][1] != '{':
            pclose = rtok.match_close(st, i + 2)
            text = text[:st[i + 5][2]] + '{ ' + text[st[i + 5][2]:st[pclose][2]] + ' }' + text[st[pclose][2]:]
            st = rtok.sig(rtok.lex(text))
            break
    for i in range(len(st) - 6):
        if st[i][1] == '.' and st[i + 1][1] == 'execute' and st[i + 2][1] == '(' and st[i + 3][1] == 'move' \
                and st[i + 4][1] == '||' and st[i + 5][1] == '{':
            bclose = rtok.match_close(st, i + 5)
            pclose = rtok.match_close(st, i + 2)
            if pclose != bclose + 1:
                raise AnchorLost('R6: unexpected tokens after job closure body')
            xs = _stmt_start(st, i)
            body = text[st[i + 5][2]:st[bclose][3]]
            body_line0 = text.count('\n', 0, st[i + 5][2])
            log.append('R6 job closure lifted to a function; call replaced by `%s`' % arg)
            new = _replace_spans(text, [(st[xs][2], st[pclose][3], arg)])
            return new, body, body_line0
    raise AnchorLost('R6: `.execute(move || {..})` not found')


# ----------------------------------------------------------------------------
# insert-only edits with origin tracking
# ----------------------------------------------------------------------------

class Piece:
    __slots__ = ('text', 'origin')

    def __init__(self, text, origin):
        self.text = text
        self.origin = origin


OPAQUE_MACROS = ('debug', 'info', 'warn', 'error', 'trace', 'format', 'print', 'println', 'eprint', 'eprintln', 'panic', 'verif_panic', 'write', 'writeln',
                 'unreachable', 'todo', 'unimplemented', 'log', 'format_args')


def _macro_skip(st, i):
    """if st[i] is the `!` of a macro invocation return index after its argument group else None"""
    if st[i][1] == '!' and i > 0 and st[i - 1][0] == 'ident' and i + 1 < len(st) and st[i + 1][1] in ('(', '[', '{'):
        if st[i - 1][1] not in OPAQUE_MACROS:
            return None      # `vec![..]`, `matches!(..)`, `assert!(..)`: the arguments are ordinary expressions (effectful calls get the token)
        return rtok.match_close(st, i + 1) + 1
    return None


def call_key(st, i):
    name = st[i][1]
    prev = st[i - 1][1] if i > 0 else ''
    if prev == '.':
        return '.' + name
    if prev == '::' and i >= 2:
        return st[i - 2][1] + '::' + name
    return name


def find_loops(st, lo, hi):
    """indices (into st) of loop keywords between lo and hi, in textual order, skipping macro args"""
    res = []
    i = lo
    while i < hi:
        sk = _macro_skip(st, i)
        if sk is not None:
            i = sk
            continue
        if st[i][0] == 'ident' and st[i][1] in ('while', 'for', 'loop') and st[i - 1][1] not in ('.', '::'):
            # body open brace
            j = i + 1
            while j < hi:
                if st[j][0] == 'punct':
                    if st[j][1] in ('(', '['):
                        j = rtok.match_close(st, j)
                    elif st[j][1] == '{':
                        break
                j += 1
            res.append((i, j, rtok.match_close(st, j)))
        i += 1
    return res


def find_anchor(st, anchor, lo, hi):
    """token-sequence anchor; alternatives are separated by ` || ` (tried in order); of several hits the one that begins a statement wins"""
    last = None
    for alt in anchor.split(' || '):
        want = [t[1] for t in rtok.sig(rtok.lex(alt))]
        hits = []
        for i in range(lo, hi - len(want) + 1):
            if [x[1] for x in st[i:i + len(want)]] == want:
                hits.append(i)
        if len(hits) > 1:
            starts = [i for i in hits if st[i - 1][1] in (';', '{', '}')]
            if len(starts) == 1:
                hits = starts
            elif len(starts) > 1:
                # several statements begin with the anchor: the one on the main path (least nesting) wins when it is the only one there
                def depth(i):
                    d = 0
                    for k in range(lo, i):
                        if st[k][0] == 'punct':
                            if st[k][1] in ('{', '(', '['):
                                d += 1
                            elif st[k][1] in ('}', ')', ']'):
                                d -= 1
                    return d
                ds = [(depth(i), i) for i in starts]
                m = min(d for d, _ in ds)
                shallow = [i for d, i in ds if d == m]
                if len(shallow) == 1:
                    hits = shallow
        if len(hits) == 1:
            return hits[0], hits[0] + len(want) - 1
        last = 'anchor `%s` found %d times' % (alt, len(hits))
    raise AnchorLost(last)


def stmt_bounds(st, i, j, lo, hi):
    """statement containing tokens i..j: (first token idx, last token idx incl. `;` or closing `}`)"""
    # backwards to previous `;` `{` `}` at same depth
    depth = 0
    a = i
    k = i - 1
    while k >= lo:
        t = st[k][1]
        if st[k][0] == 'punct':
            if t in (')', ']', '}'):
                if depth == 0 and t == '}':
                    break
                depth += 1
            elif t in ('(', '[', '{'):
                if depth == 0:
                    break
                depth -= 1
            elif t == ';' and depth == 0:
                break
        a = k
        k -= 1
    # forwards to `;` at depth 0, or a `}` closing a block-statement at depth 0
    depth = 0
    k = a
    b = j
    blocklike = st[a][1] in ('if', 'match', 'while', 'for', 'loop', 'unsafe', '{')
    while k < hi:
        if blocklike and st[k][0] == 'punct' and st[k][1] == '}' and depth == 1:
            if not (k + 1 < hi and st[k + 1][1] == 'else'):
                return a, k
        t = st[k][1]
        if st[k][0] == 'punct':
            if t in ('(', '[', '{'):
                depth += 1
            elif t in (')', ']', '}'):
                depth -= 1
                if depth < 0:
                    b = k - 1
                    break
            elif t == ';' and depth == 0:
                b = k
                break
        b = k
        k += 1
    return a, b


def _slice_prelude_lets(ost, body_open, loop_kw, body_text, sig):
    """`let NAME = ROOT.f.g;` statements (non-mut, no calls) that precede the sliced loop in the enclosing function, whose ROOT is a parameter
    of the slice signature and whose NAME the loop body mentions"""
    params = set(re.findall(r'(?:\(|,)\s*(?:mut\s+)?([a-z_]\w*)\s*:', sig))
    used = set(re.findall(r'[A-Za-z_]\w*', body_text))
    out = []
    i = body_open + 1
    while i < loop_kw:
        if ost[i][1] == 'let' and ost[i + 1][0] == 'ident' and ost[i + 1][1] != 'mut' and ost[i - 1][1] in (';', '{', '}') and ost[i + 2][1] == '=':
            name = ost[i + 1][1]
            k = i + 3
            toks = []
            ok = True
            while k < loop_kw and ost[k][1] != ';':
                if not (ost[k][0] == 'ident' or ost[k][1] == '.') or ost[k][1] in ('as', 'mut'):
                    ok = False
                    break
                toks.append(ost[k][1])
                k += 1
            if ok and toks and toks[0] in params and '.' in toks and name in used and name not in params:
                out.append('let %s = %s;' % (name, ''.join(toks)))
            i = k
        i += 1
    return out


def _hoist_invariants(fs, st, log):
    fo = next(i for i, t in enumerate(st) if t[1] == '{')
    fc = rtok.match_close(st, fo)
    sig = st[:fo]
    roots = set()
    # immutable roots: `&self` / `self`, parameters that are neither `mut` nor `&mut`
    for i, t in enumerate(sig):
        if t[1] == 'self' and not (i >= 1 and sig[i - 1][1] == 'mut'):
            roots.add('self')
        if t[0] == 'ident' and i + 1 < len(sig) and sig[i + 1][1] == ':' and sig[i - 1][1] in ('(', ','):
            j = i + 2
            if not (sig[j][1] == '&' and sig[j + 1][1] == 'mut'):
                roots.add(t[1])
    loops = find_loops(st, fo + 1, fc)
    added = 0
    i = fo + 1
    while i < fc:
        if st[i][1] == 'let' and st[i + 1][0] == 'ident' and st[i + 1][1] != 'mut' and st[i - 1][1] in (';', '{', '}'):
            name = st[i + 1][1]
            j = i + 2
            if st[j][1] == ':':          # skip a type annotation
                while j < fc and st[j][1] not in ('=', ';'):
                    j += 1
            if st[j][1] == '=':
                k = j + 1
                expr = []
                ok = True
                while k < fc and st[k][1] != ';':
                    t = st[k]
                    if t[1] == 'as' or not (t[0] in ('ident', 'int', 'number', 'lit') or t[1] in ('.', 'self')):
                        ok = False
                        break
                    expr.append(t)
                    k += 1
                # an optional trailing `as TYPE`
                cast = ''
                if not ok and k < fc and st[k][1] == 'as' and st[k + 1][0] == 'ident' and st[k + 2][1] == ';' and expr:
                    cast = ' as ' + st[k + 1][1]
                    k = k + 2
                    ok = True
                root = expr[0][1] if expr else None
                mutable_root = ok and expr and root not in roots and expr[0][0] == 'ident' and root not in ('mut',)

                def untouched(a, b):
                    # tokens a..b neither assign to the root (or a field path of it) nor borrow it mutably nor pass it on by `&mut`
                    m = a
                    while m < b:
                        if st[m][1] == root and st[m - 1][1] != '.':
                            if st[m - 1][1] == 'mut' and st[m - 2][1] == '&':
                                return False
                            n2 = m + 1
                            while st[n2][1] == '.' and st[n2 + 1][0] == 'ident':
                                n2 += 2
                            if st[n2][1] in ('=', '+=', '-=', '*=', '/=', '%=', '|=', '&=', '^=', '<<=', '>>=') or (st[n2][1] == '.' ):
                                return False
                            if st[n2][1] == '(':      # root.method(..): may mutate through &mut self
                                return False
                        m += 1
                    return True
                if ok and expr and (root in roots or mutable_root) and all(e[1] not in ('mut', 'as') for e in expr) \
                        and not any(st[m][1] == '(' for m in range(j + 1, k)):
                    # the block the `let` lives in
                    depth = 0
                    b = i
                    while b > fo:
                        b -= 1
                        if st[b][1] == '}':
                            depth += 1
                        elif st[b][1] == '{':
                            if depth == 0:
                                break
                            depth -= 1
                    bclose = rtok.match_close(st, b)
                    text = ''.join(x[1] for x in expr) + cast
                    # not re-bound later in the same block (shadowing would make the clause talk about another variable)
                    shadow = any(st[m][1] == 'let' and st[m + 1][1] in (name, 'mut') and st[m + 2 if st[m + 1][1] == 'mut' else m + 1][1] == name
                                 for m in range(k, bclose))
                    if not shadow:
                        for n, (kw, lo, lc) in enumerate(loops, 1):
                            if k < kw < bclose:
                                if mutable_root and not untouched(k, lc):
                                    continue
                                lp = fs.loops.setdefault(n, specmod.Loop(n))
                                lp.invariants = list(lp.invariants) + [specmod.Clause(list(fs.safety), '%s == %s' % (name, text), 'invariant', 'auto-hoist-loop')]
                                added += 1
                        if not mutable_root:
                            roots.add(name)
                i = k
        i += 1
    if added:
        log.append('auto-hoist: %d loop invariant(s) `local == place expression` for locals bound before a loop' % added)


driver_fn_shape = None   # set by driver (avoids a circular import)
KNOWN_FN_NAMES = set()   # names of every function under contract and of every `fn` of the prelude (filled by driver.assemble)


def _split_args(st, open_i, close_i):
    """top-level comma split of the argument tokens st[open_i+1 : close_i] -> [(first, end)]"""
    out = []
    d = 0
    a = open_i + 1
    for k in range(open_i + 1, close_i + 1):
        u = st[k][1]
        if k == close_i or (u == ',' and d == 0):
            if k > a:
                out.append((a, k))
            a = k + 1
        elif u in ('(', '[', '{'):
            d += 1
        elif u in (')', ']', '}'):
            d -= 1
    return out


def rw_inline_helpers(text, src, log, depth=0, scope=None):
    """R18: `helper(a, b)?` / `helper(a, b)` where `helper` is a free function defined in the same source file, neither under contract nor
    modelled by a stand-in, is replaced by a block `{ let (p1, p2): (T1, T2) = (a, b); BODY }`.  Only the simple shapes are handled:
    no generics, no `self`, no `return Ok`/bare `return`; a body using `?` or `return Err(..)` requires the call to be followed by `?`
    and the helper to return the same `Result<..>` alias as the caller (then `BODY` ends in `Ok(v)` and the block's value is `v`).
    Anything else is left alone (the unknown callee then makes the function leave the subset: undecided)."""
    if depth > 2:
        return text
    st = rtok.sig(rtok.lex(text))
    try:
        body_open = next(i for i, t in enumerate(st) if t[1] == '{')
    except StopIteration:
        return text
    own = st[1][1] if st[0][1] == 'fn' else None
    for i in range(body_open + 1, len(st) - 1):
        t = st[i]
        if t[0] != 'ident' or st[i + 1][1] != '(' or st[i - 1][1] in ('fn', '!'):
            continue
        if st[i - 1][1] == '::' and not (st[i - 2][1] == 'Self' and scope and st[i - 3][1] != '::'):
            continue
        is_method = st[i - 1][1] == '.'
        if is_method and not (st[i - 2][1] == 'self' and st[i - 3][1] not in ('.', '::') and scope):
            continue
        is_assoc = False
        name = t[1]
        if name in KNOWN_FN_NAMES or name == own or not re.match(r'^[a-z_][a-z0-9_]*$', name):
            continue
        h = None
        cands = [None]
        is_assoc = st[i - 1][1] == '::'
        if is_method or is_assoc:
            # the impl block of the caller, then the inherent impl of the same Self type
            ty = scope.split(' for ')[-1].replace('impl', '').strip()
            cands = [scope, 'impl ' + ty]
        for sc in cands:
            try:
                h = extract.find_fn(src, sc, name)
                break
            except (extract.AnchorLost, rtok.LexError):
                continue
        if h is None:
            continue
        hst = rtok.sig(rtok.lex(h['text']))
        fn_i = next(k for k, x in enumerate(hst) if x[1] == 'fn')
        if hst[fn_i + 2][1] != '(':
            continue        # generics
        po = fn_i + 2
        pc = rtok.match_close(hst, po)
        hb_open = next(k for k in range(pc, len(hst)) if hst[k][1] == '{')
        hb_close = rtok.match_close(hst, hb_open)
        ret = h['text'][hst[pc + 2][2]:hst[hb_open - 1][3]].strip() if hst[pc + 1][1] == '->' else ''
        if 'where' in [x[1] for x in hst[pc:hb_open]] or 'impl' in ret:
            continue
        # parameters
        params = []
        okp = True
        d = 0
        a = po + 1
        for k in range(po + 1, pc + 1):
            u = hst[k][1]
            if k == pc or (u == ',' and d == 0):
                seg = hst[a:k]
                if seg:
                    words = [x[1] for x in seg]
                    if is_method and words in (['&', 'self'], ['self'], ['&', 'mut', 'self']):
                        a = k + 1
                        continue
                    if 'self' in words or ':' not in words:
                        okp = False
                        break
                    c = words.index(':')
                    pat = h['text'][seg[0][2]:seg[c - 1][3]]
                    ty = h['text'][seg[c + 1][2]:seg[-1][3]]
                    if not re.match(r'^(mut\s+)?[a-z_]\w*$', pat) or "'" in ty:
                        okp = False
                        break
                    params.append((pat, ty))
                a = k + 1
            elif u in ('(', '[', '{', '<'):
                d += 1
            elif u in (')', ']', '}', '>'):
                d -= 1
        if not okp:
            continue
        body = h['text'][hst[hb_open][3]:hst[hb_close][2]]
        bwords = [x[1] for x in hst[hb_open + 1:hb_close]]
        has_q = '?' in bwords
        rets = [k for k in range(hb_open + 1, hb_close) if hst[k][1] == 'return']
        if any(not (hst[k + 1][1] == 'Err' and hst[k + 2][1] == '(') for k in rets):
            continue        # `return Ok(..)` / bare `return`: not inlinable as a block
        cc = rtok.match_close(st, i + 1)
        followed_q = st[cc + 1][1] == '?'
        is_result = bool(re.match(r'^(\w+::)*Result\s*<', ret))
        if (has_q or rets) and not (followed_q and is_result):
            continue
        args = text[st[i + 2][2]:st[cc - 1][3]] if cc > i + 2 else ''
        # parameters whose argument is a plain place expression (`x`, `&x`, `&x.f`) are substituted into the body instead of bound by a
        # `let`: a binding `let p: &T = &arc;` goes through Deref, which loses the identity of the value for the verifier
        arg_parts = [text[st[a0][2]:st[b0 - 1][3]].strip() for a0, b0 in _split_args(st, i + 1, cc)] if cc > i + 2 else []
        subst = {}
        if len(arg_parts) == len(params):
            body_binders = set(re.findall(r'\blet\s+(?:mut\s+)?(\w+)', body)) | set(re.findall(r'\bfor\s+(\w+)\s+in\b', body)) | set(re.findall(r'\|\s*(\w+)\s*\|', body))
            keep_p, keep_a = [], []
            for (pat, ty), av in zip(params, arg_parts):
                pname = pat.split()[-1]
                simple = re.match(r'^&?\s*(mut\s+)?[a-z_]\w*(\.\w+)*$', av) is not None
                idents = set(re.findall(r'[a-z_]\w*', av)) - {'mut'}
                assigned = re.search(r'\b%s\s*(=[^=]|\+=|-=)' % re.escape(pname), body) is not None
                if simple and not pat.startswith('mut') and pname not in body_binders and not (idents & body_binders) and not assigned:
                    subst[pname] = av if re.match(r'^[a-z_]\w*$', av) else '(' + av + ')'
                else:
                    keep_p.append((pat, ty))
                    keep_a.append(av)
            if subst:
                # simultaneous whole-word substitution (not after `.` or `::`: field and path names are left alone)
                pat_re = re.compile(r'(?<![\w.:])(' + '|'.join(re.escape(k) for k in subst) + r')(?!\w)')
                body = pat_re.sub(lambda m: subst[m.group(1)], body)
                params, args = keep_p, ', '.join(keep_a)
        if len(params) == 0:
            bind = ''
        elif len(params) == 1:
            bind = 'let %s: %s = %s; ' % (params[0][0], params[0][1], args.strip().rstrip(','))
        else:
            bind = 'let (%s): (%s) = (%s); ' % (', '.join(p for p, _ in params), ', '.join(ty for _, ty in params), args.strip().rstrip(','))
        if followed_q and is_result:
            # the body must end in `Ok(v)`: the block's value is `v`
            bst = hst[hb_open + 1:hb_close]
            tail_ok = len(bst) >= 4 and bst[-1][1] == ')'
            # find the `Ok` that opens the tail expression
            k = len(bst) - 1
            dd = 0
            while tail_ok and k >= 0:
                if bst[k][1] in (')', ']', '}'):
                    dd += 1
                elif bst[k][1] in ('(', '[', '{'):
                    dd -= 1
                    if dd == 0:
                        break
                k -= 1
            if not tail_ok or k < 1 or bst[k - 1][1] != 'Ok' or (k >= 2 and bst[k - 2][1] not in (';', '}', '{')):
                # the tail is some other expression of the Result type (a `match` whose arms are `Ok(..)`, a call): the block keeps it and the
                # call's own `?` stays behind the block.  A `?` inside then leaves the caller directly instead of leaving the helper first:
                # the same error value either way, since helper and caller return the same Result alias
                repl = '{ ' + bind + 'let r__h: ' + ret + ' = {' + body + '}; r__h }'
                end = st[cc][3]
            else:
                stmts = h['text'][hst[hb_open][3]:bst[k - 1][2]]
                val = h['text'][bst[k][3]:bst[-1][2]]
                if subst:
                    stmts = pat_re.sub(lambda m: subst[m.group(1)], stmts)
                    val = pat_re.sub(lambda m: subst[m.group(1)], val)
                repl = '{ ' + bind + stmts + ' ' + (val if val.strip() else '()') + ' }'
                end = st[cc + 1][3]
        else:
            repl = '{ ' + bind + body + ' }'
            end = st[cc][3]
        # keep the line count of the caller: the inlined text goes on one line
        repl = ' '.join(l.split('//')[0].strip() if '//' in l and '"' not in l else l.strip() for l in repl.split('\n'))
        new = text[:(st[i - 2][2] if (is_method or is_assoc) else t[2])] + repl + text[end:]
        log.append('R18 call of private helper `%s%s` (no contract, same file) inlined as a block' % ('self.' if is_method else ('Self::' if is_assoc else ''), name))
        return rw_inline_helpers(new, src, log, depth + 1, scope)
    return text


LOCKED_BINDERS = {}   # fid -> {'params': [...], 'lets': [...]}, filled by driver.assemble from obligations.lock


def extract_binders(st, sliced):
    """names of the parameters and of the simple `let` / `for` binders of a function, in textual order"""
    out = {'params': [], 'lets': []}
    try:
        fn_i = next(i for i, t in enumerate(st) if t[1] == 'fn')
        po = next(i for i in range(fn_i, len(st)) if st[i][1] == '(')
        pc = rtok.match_close(st, po)
    except StopIteration:
        return out
    if not sliced:
        depth = 0
        start = po + 1
        i = po + 1
        while i <= pc:
            t = st[i][1]
            if i == pc or (t == ',' and depth == 0):
                seg = [x[1] for x in st[start:i]]
                if ':' in seg:
                    k = seg.index(':')
                    names = [x for x in seg[:k] if x not in ('mut', '&', 'ref')]
                    if len(names) == 1 and re.match(r'^[a-z_]\w*$', names[0]):
                        out['params'].append(names[0])
                    else:
                        out['params'].append('?' + ' '.join(seg[:k]))
                start = i + 1
            elif t in ('(', '[', '{', '<'):
                depth += 1
            elif t in (')', ']', '}', '>'):
                depth -= 1
            i += 1
    for i in range(pc, len(st) - 2):
        if st[i][1] == 'let' and st[i - 1][1] not in ('if', 'while'):
            j = i + 1
            if st[j][1] == 'mut':
                j += 1
            if st[j][0] == 'ident' and st[j + 1][1] in ('=', ':', ';') and st[j][1] != 'ghost':
                out['lets'].append(st[j][1])
        elif st[i][1] == 'for' and st[i + 1][0] == 'ident' and st[i + 2][1] == 'in':
            out['lets'].append(st[i + 1][1])
    return out


FRAME_EQ_RE = re.compile(r'^final\(w\)\.(\w+)\s*==\s*old\(w\)\.(\w+)$')
FRAME_PRED_RE = re.compile(r'^(fr_\w+)\(\*old\(w\),\s*\*final\(w\)\)$')


def frame_conjuncts(ensures):
    """top-level conjuncts `final(w).X == old(w).X` / `fr_*(*old(w), *final(w))` of the unconditional ensures clauses,
    rewritten over the current state `w`: [(tags, text)]"""
    out = []
    seen = set()
    for c in ensures:
        if c.origin in ('auto-monotone',):
            continue
        txt = ' '.join(l.split('//')[0].strip() for l in c.text.split('\n'))
        if '==>' in txt or 'forall' in txt or 'exists' in txt or 'match ' in txt or '||' in txt:
            continue
        for part in txt.split('&&'):
            part = part.strip().rstrip(',')
            m = FRAME_EQ_RE.match(part)
            if m and m.group(1) == m.group(2):
                t = 'w.%s == old(w).%s' % (m.group(1), m.group(1))
            else:
                m = FRAME_PRED_RE.match(part)
                if not m:
                    continue
                t = '%s(*old(w), *w)' % m.group(1)
            if t not in seen:
                seen.add(t)
                out.append((c.tags, t))
    return out


def build_fn(fs, repo, effectful, table_keys, canary=False):
    """returns GenFn with out_lines filled"""
    if fs.external and getattr(fs, 'skipped', False):
        # a function left out of this run (its body is outside the subset, or one of its anchors is gone): signature and contract only
        fs.rewrites, fs.loops, fs.inserts = [], {}, []
    g = GenFn(fs)
    path = os.path.join(repo, fs.src)
    with open(path) as f:
        src = f.read()
    g.src_path = fs.src
    log = g.edits
    lifted = None

    if fs.slice and fs.external and getattr(fs, 'skipped', False):
        text = fs.sig + ' {\n}'
        g.src_start = g.src_end = 0
        g.src_hash = 'left-out'
        sliced = True
    elif fs.slice:
        within = fs.slice.get('within')
        wscope, _, wname = within.rpartition('::')
        outer = extract.find_fn(src, wscope.strip() or None, wname.strip())
        otext = rw_flatten_results(outer['text'], log)
        ost = rtok.sig(rtok.lex(otext))
        body_open = next(i for i, t in enumerate(ost) if t[1] == '{')
        body_close = rtok.match_close(ost, body_open)
        if fs.slice['kind'] == 'loopbody':
            n = int(fs.slice['arg'])
            loops = find_loops(ost, body_open + 1, body_close)
            if n > len(loops):
                raise AnchorLost('%s: loop %d not found in %s' % (fs.fid, n, within))
            _, lo_i, lc_i = loops[n - 1]
            s_off, e_off = ost[lo_i][3], ost[lc_i][2]
        elif fs.slice['kind'] == 'range':
            a0, _ = find_anchor(ost, fs.slice['from'], body_open + 1, body_close)
            sa, _ = stmt_bounds(ost, a0, a0, body_open + 1, body_close)
            if fs.slice['to'] == '__END__':
                s_off, e_off = ost[sa][2], ost[body_close][2]
            else:
                b0, _ = find_anchor(ost, fs.slice['to'], body_open + 1, body_close)
                sb, _ = stmt_bounds(ost, b0, b0, body_open + 1, body_close)
                s_off, e_off = ost[sa][2], ost[sb][2]
        elif fs.slice['kind'] == 'jobbody':
            # R6: body of the closure passed to .execute(move || {..}) inside `within`
            _, body, line0 = rw_lift_job(otext, 'x', [])
            if body not in otext:
                # brace-less closure: the braces were added by rw_lift_job; slice the expression itself
                inner = body[1:-1].strip()
                s_off = otext.index(inner) - 1
                e_off = s_off + 1 + len(inner)
                otext = otext[:s_off] + ' ' + otext[s_off + 1:]
            else:
                s_off = otext.index(body) + 1
                e_off = s_off + len(body) - 2
        else:
            raise specmod.SpecError('unknown slice kind')
        body_text = otext[s_off:e_off]
        if fs.slice['kind'] == 'loopbody' and fs.tail:
            body_text = rw_continue_to_return(body_text, fs.tail, log)
        if fs.slice['kind'] == 'loopbody':
            # locals the enclosing function binds *before* the loop to a pure place expression over things the slice has as parameters
            # (`let no_clobber = config.no_clobber;` hoisted out of the loop) are re-bound at the start of the slice, on the same line
            pre = _slice_prelude_lets(ost, body_open, loops[n - 1][0], body_text, fs.sig)
            if pre:
                body_text = ' ' + ' '.join(pre) + body_text
                log.append('R10 %d local(s) bound before the loop to a place expression re-bound in the slice: %s' % (len(pre), ' '.join(pre)))
        line0 = outer['start_line'] + otext.count('\n', 0, s_off)
        tail = ('\n' + fs.tail) if fs.tail else ''
        text = fs.sig + ' {' + body_text + tail + '\n}'
        # keep line alignment: the sig occupies line `line0` together with the first body line
        g.src_start = line0
        g.src_end = line0 + body_text.count('\n')
        g.src_hash = hashlib.sha256(body_text.encode()).hexdigest()[:16]
        log.append('R10 slice of %s (%s %s): lines %d-%d wrapped as `%s`' % (within, fs.slice['kind'], fs.slice.get('arg', ''), g.src_start, g.src_end, fs.sig.split('(')[0]))
        sliced = True
    else:
        it = extract.find_fn(src, fs.scope, fs.name if not fs.rename else fs.fid.split('::')[-1])
        text = rw_flatten_results(it['text'], log)
        g.shape = driver_fn_shape(text)
        if getattr(fs, 'renamed_note', None):
            log.append(fs.renamed_note)
        g.src_start, g.src_end = it['start_line'], it['end_line']
        g.src_hash = hashlib.sha256(text.encode()).hexdigest()[:16]
        sliced = False

    # ---- R18: calls of private helpers of the same file that have no contract and no stand-in are inlined (before every other rewrite)
    if not fs.external:
        text = rw_inline_helpers(text, src, log, 0, (fs.slice.get('within').rpartition('::')[0].strip() or None) if fs.slice else fs.scope)

    # ---- pre-pass rewrites
    for kind, arg, origin in fs.rewrites:
        if kind == 'unwrap_or_else':
            text = rw_unwrap_or_else(text, log)
        elif kind in ('and_then', 'map'):
            # the combinator the contract was written for, else its sibling (`and_then` <-> `map` is a one-token edit of the source,
            # and both are rewritten by their std definitions), else nothing to rewrite
            first, second = (rw_and_then, rw_map) if kind == 'and_then' else (rw_map, rw_and_then)
            try:
                text = first(text, log)
            except AnchorLost:
                try:
                    text = second(text, log)
                except AnchorLost:
                    log.append('R4/R16 no `.and_then(|v| ..)` / `.map(|v| ..)` in this body: nothing to rewrite')
        elif kind == 'spawn_calls':
            text = rw_spawn_calls(text, log)
        elif kind == 'guard_to_if':
            text = rw_guard_to_if(text, log)
        elif kind == 'inline_closure':
            text = rw_inline_closure(text, arg, log)
        elif kind == 'vecslice':
            text = rw_vecslice(text, arg.split(), log)
        elif kind == 'literal':
            text = rw_literal(text, arg, log)
        elif kind == 'lift_job':
            text, _b, _l = rw_lift_job(text, arg, log)
        else:
            raise specmod.SpecError('%s: unknown rewrite %s' % (origin, kind))

    text = rw_drop_inner_use(text, log)
    text = rw_result_combinators(text, (set(effectful) | set(table_keys) | set(fs.extra_effectful)) - set(fs.not_effectful), log)
    text = rw_closure_underscore(text, log)
    text = rw_matches(text, log)
    text = rw_ufcs_ext(text, log)
    text = rw_no_panic(text, log)
    text = rw_log_errno(text, log)
    text = rw_probe_defs(text, log)
    text = rw_std_prefix(text, log)
    text = rw_loop_break_head(text, log)
    if fs.external and getattr(fs, 'skipped', False):
        r12 = {}      # left-out function: the body is dropped, nothing to rewrite
    else:
        text, r12 = rw_for_continue(text, log)
    for n, (inv_t, dec_t) in r12.items():
        lp = fs.loops.setdefault(n, specmod.Loop(n))
        lp.iter = None
        lp.invariants = list(lp.invariants) + [specmod.Clause(list(fs.safety), inv_t, 'invariant', 'R12')]
        if not lp.decreases:
            lp.decreases = [specmod.Clause(['C07'], dec_t, 'decreases', 'R12')]

    toks = rtok.lex(text)
    st = rtok.sig(toks)
    # R17: contract text follows renamed binders.  The names of the parameters and of the `let`/`for` binders, in textual order, are recorded
    # by `./check lock`; when the current function has the same number of them and some differ, the contract's references are renamed alike.
    g.binders = extract_binders(st, sliced)
    locked = LOCKED_BINDERS.get(fs.fid)
    if locked and not fs.external:
        ren = {}
        for kind in ('params', 'lets'):
            a, b = locked.get(kind, []), g.binders.get(kind, [])
            if len(a) == len(b):
                diff = [(x, y) for x, y in zip(a, b) if x != y]
                # parameters are positional and typed: any number may be renamed; of the local binders at most two may differ
                if kind == 'params' or len({d for d in diff}) <= 2:
                    for x, y in diff:
                        if ren.get(x, y) != y or y in a:
                            ren = None
                            break
                        ren[x] = y
            if ren is None:
                break
        if ren:
            pat = re.compile(r'(?<![\w.])(' + '|'.join(re.escape(k) for k in ren) + r')(?![\w(])')

            def rn(t):
                return pat.sub(lambda m: ren[m.group(1)], t)
            for c in list(fs.requires) + list(fs.ensures):
                c.text = rn(c.text)
            for lp in fs.loops.values():
                for c in list(lp.invariants) + list(lp.invariants_xb) + list(lp.ensures) + list(lp.decreases):
                    c.text = rn(c.text)
            for insr in fs.inserts:
                insr.lines = [rn(l) for l in insr.lines]
                insr.anchor = rn(insr.anchor)
            log.append('R17 contract names follow renamed binders: %s' % ', '.join('%s -> %s' % kv for kv in sorted(ren.items())))
    # A-monotone (auto): the failure counters of the ghost world only grow.  Every function that holds the mutable world token gets the
    # postcondition, every loop in it the invariant; trusted stand-ins get the same clause injected by driver.inject_monotone.
    mut_world = (not fs.noworld and not sliced) or (sliced and 'Tracked<&mut World>' in text.split('{', 1)[0])
    if mut_world:
        fs.ensures = list(fs.ensures) + [specmod.Clause(['C04'], MONO_POST, 'ensures', 'auto-monotone')]
        if not fs.external:
            _fo = next(i for i, t in enumerate(st) if t[1] == '{')
            for n in range(1, len(find_loops(st, _fo + 1, len(st) - 1)) + 1):
                lp = fs.loops.setdefault(n, specmod.Loop(n))
                lp.invariants = list(lp.invariants) + [specmod.Clause(['C04'], MONO_INV, 'invariant', 'auto-monotone-loop')]
                # auto-frame: whatever the function promises to leave unchanged *unconditionally* is unchanged at every loop head too.
                # Stated for every loop, also those whose body only reads the world today, so that a body that starts to call
                # something fallible does not lose the frame for lack of an invariant (a proof failure, not a violation).
                for c in (frame_conjuncts(fs.ensures) if os.environ.get('VERIF_NO_AUTOFRAME') != '1' else []):
                    lp.invariants = list(lp.invariants) + [specmod.Clause(list(c[0]), c[1], 'invariant', 'auto-frame-loop')]
    # auto-hoist: a non-`mut` local bound before a loop to a pure place expression over immutable roots (`let bs = self.config.block_size;`)
    # equals that expression at every loop head.  Loops are verified in isolation, so without this a harmless hoisting of a field read out
    # of a loop loses every fact the contract states about the field (a proof failure on property-respecting code, not a violation).
    if not fs.external:
        try:
            _hoist_invariants(fs, st, log)
        except Exception as e:   # never let a convenience break the run
            log.append('auto-hoist skipped: %s' % e)
    ins = []   # (offset, seq, text, origin)
    seq = [0]

    def add(off, s, origin=('glue', None)):
        seq[0] += 1
        ins.append((off, seq[0], s, origin))

    # ---- signature
    fn_i = next(i for i, t in enumerate(st) if t[1] == 'fn')
    name_i = fn_i + 1
    p_open = next(i for i in range(name_i, len(st)) if st[i][1] == '(')
    p_close = rtok.match_close(st, p_open)
    body_open = p_close + 1
    while st[body_open][1] != '{':
        if st[body_open][1] in ('(', '['):
            body_open = rtok.match_close(st, body_open)
        body_open += 1
    body_close = rtok.match_close(st, body_open)
    g.has_self = any(st[i][1] == 'self' for i in range(p_open, p_close))

    if fs.rename and not sliced:
        add(st[name_i][2], '', ('glue', None))
    if not fs.noworld and not sliced:
        inner = [t for t in st[p_open + 1:p_close]]
        if not inner:
            add(st[p_close][2], WORLD_PARAM)
        elif inner[-1][1] == ',':
            add(st[p_close][2], WORLD_PARAM)
        else:
            add(st[p_close][2], ', ' + WORLD_PARAM)
        log.append('R1 ghost parameter `%s` appended' % WORLD_PARAM)
    # named return
    arrow = None
    for i in range(p_close + 1, body_open):
        if st[i][1] == '->':
            arrow = i
            break
    if arrow is not None and not sliced:
        ty_s = st[arrow + 1][2]
        ty_e = st[body_open - 1][3]
        add(ty_s, '(r: ')
        add(ty_e, ')')
        log.append('R2 result named `r`')

    # ---- contract clauses before body `{`
    ob = g.obligations

    def clause_lines(clauses, kw, prefix, indent):
        if not clauses:
            return
        add_here(indent + kw + '\n')
        for k, c in enumerate(clauses, 1):
            c.oid = '%s/%s#%d' % (fs.fid, prefix, k)
            body = c.text.rstrip()
            if body.endswith(','):
                body = body[:-1]
            add_here(''.join(indent + '    ' + l.strip() + '\n' for l in body.split('\n'))[:-1] + ',\n', ('ob', c.oid))
            ob.append({'oid': c.oid, 'kind': c.kind, 'tags': c.tags, 'text': ' '.join(c.text.split()), 'origin': c.origin})

    cur_off = [st[body_open][2]]

    def add_here(s, origin=('glue', None)):
        add(cur_off[0], s, origin)

    add_here('\n')
    # requires are obligations of the callers; ensures of this function
    if fs.requires:
        add_here('    requires\n')
        for k, c in enumerate(fs.requires, 1):
            c.oid = '%s/requires#%d' % (fs.fid, k)
            body = c.text.rstrip().rstrip(',')
            add_here(''.join('        ' + l.strip() + '\n' for l in body.split('\n'))[:-1] + ',\n', ('req', c.oid))
    clause_lines(fs.ensures, 'ensures', 'ensures', '    ')

    # ---- loops
    loops = find_loops(st, body_open + 1, body_close)
    for n, lp in sorted(fs.loops.items()):
        if n > len(loops):
            raise AnchorLost('%s: loop %d not found (function has %d loops)' % (fs.fid, n, len(loops)))
        kw_i, lo_i, lc_i = loops[n - 1]
        if lp.iter:
            # R9: for x in it: E
            in_i = next(i for i in range(kw_i, lo_i) if st[i][1] == 'in')
            add(st[in_i][3], ' %s:' % lp.iter)
            log.append('R9 ghost iterator binder `%s` on loop %d' % (lp.iter, n))
        cur_off[0] = st[lo_i][2]
        add_here('\n')
        clause_lines(lp.invariants_xb, 'invariant_except_break', 'loop%d/invariant_xb' % n, '        ')
        clause_lines(lp.invariants, 'invariant', 'loop%d/invariant' % n, '        ')
        clause_lines(lp.ensures, 'ensures', 'loop%d/ensures' % n, '        ')
        clause_lines(lp.decreases, 'decreases', 'loop%d/decreases' % n, '        ')
        add_here('        ')

    # ---- anchored inserts
    for k, insr in enumerate(fs.inserts, 1):
        insr.oid = '%s/proof#%d' % (fs.fid, k)
        ilines = list(insr.lines)
        while ilines and (not ilines[-1].strip() or ilines[-1].strip().startswith('//')):
            ilines.pop()
        txt = '\n'.join(ilines).rstrip() + '\n'
        if insr.where == 'at_start':
            off = st[body_open][3]
            txt = '\n' + txt
        elif insr.where == 'at_end':
            off = st[body_close][2]
            txt = '\n' + txt
        elif insr.where == 'at_end_before_tail':
            # start of the last statement / tail expression of the body
            depth = 0
            k = body_close - 1
            sa = k
            while k > body_open:
                t = st[k][1]
                if st[k][0] == 'punct':
                    if t in (')', ']', '}'):
                        if t == '}' and depth == 0 and k != body_close - 1:
                            break
                        depth += 1
                    elif t in ('(', '[', '{'):
                        depth -= 1
                    elif t == ';' and depth == 0:
                        break
                sa = k
                k -= 1
            off = st[sa][2]
            txt = txt + ' '
        elif insr.where in ('loop_end', 'loop_start'):
            if insr.loop > len(loops):
                raise AnchorLost('%s: loop %d not found' % (fs.fid, insr.loop))
            kw_i, lo_i, lc_i = loops[insr.loop - 1]
            off = st[lc_i][2] if insr.where == 'loop_end' else st[lo_i][3]
            txt = '\n' + txt
        elif getattr(insr, 'each', False):
            # `[each]`: the same text at every statement that begins with the anchor (a proof step that belongs to a kind of statement,
            # e.g. every removal of the destination, however many there are)
            want = [t[1] for t in rtok.sig(rtok.lex(insr.anchor))]
            hits = [i for i in range(body_open + 1, body_close - len(want) + 1)
                    if [x[1] for x in st[i:i + len(want)]] == want and st[i - 1][1] in (';', '{', '}')]
            if not hits:
                raise AnchorLost('anchor `%s` found 0 times' % insr.anchor)
            for a in hits:
                sa, sb = stmt_bounds(st, a, a + len(want) - 1, body_open + 1, body_close)
                if st[sb][1] not in (';', '}'):
                    # the anchor begins a tail expression (value of a block or closure): nothing can follow it, and a step placed before it
                    # has no partner; the step is left out here (it is a proof step, the postconditions still judge this path)
                    log.append('[each] proof step not placed at a tail expression beginning with `%s`' % insr.anchor)
                    continue
                if insr.where == 'before':
                    add(st[sa][2], txt + ' ', ('ob', insr.oid))
                else:
                    add(st[sb][3], '\n' + txt, ('ob', insr.oid))
            off = None
        else:
            try:
                a, b = find_anchor(st, insr.anchor, body_open + 1, body_close)
            except AnchorLost:
                if getattr(insr, 'optional', False):
                    log.append('optional proof step skipped: anchor `%s` is not in this body' % insr.anchor)
                    continue
                raise
            sa, sb = stmt_bounds(st, a, b, body_open + 1, body_close)
            if insr.where == 'before':
                off = st[sa][2]
                txt = txt + ' '
            else:
                off = st[sb][3]
                txt = '\n' + txt
        if off is not None:
            add(off, txt, ('ob', insr.oid))
        nasserts = len(re.findall(r'\bassert\b', txt))
        ob.append({'oid': insr.oid, 'kind': 'proof-hint' if insr.hint else 'proof-block', 'tags': insr.tags or fs.safety,
                   'text': '%d assert(s) %s `%s`' % (nasserts, insr.where, insr.anchor), 'origin': insr.origin})

    if fs.external:
        # trusted function: signature + contract only, the body is dropped
        ins = [x for x in ins if x[0] <= st[body_open][2]]
        ins.sort(key=lambda x: (x[0], x[1]))
        pieces = []
        pos = 0
        for off, _, s_, origin in ins:
            if off > pos:
                pieces.append(Piece(text[pos:off], ('src', pos)))
                pos = off
            pieces.append(Piece(s_, origin))
        pieces.append(Piece(text[pos:st[body_open][2]], ('src', pos)))
        pieces.append(Piece('{ unimplemented!() }', ('glue', None)))
        log.append('TRUSTED: body dropped, contract assumed')
        if fs.rename and not sliced:
            # a function emitted under another name keeps that name when its body is left out
            nm_s, nm_e = st[name_i][2], st[name_i][3]
            for p_ in pieces:
                if p_.origin[0] == 'src' and p_.origin[1] <= nm_s < p_.origin[1] + len(p_.text):
                    rel = nm_s - p_.origin[1]
                    p_.text = p_.text[:rel] + fs.rename + p_.text[rel + (nm_e - nm_s):]
                    break
        g.out_lines = _pieces_to_lines(pieces, g, text)
        return g

    if canary:
        # vacuity guard: the fall-through path of the body must NOT be able to prove false
        add(st[body_open][3], ' let r__canary = {')
        add(st[body_close][2], '\n}; assert(false); r__canary\n', ('canary', fs.fid))

    # ---- R1 at call sites
    eff = set(effectful) | set(table_keys) | set(fs.extra_effectful)
    eff -= set(fs.not_effectful)
    i = body_open + 1
    ncalls = 0
    while i < body_close:
        sk = _macro_skip(st, i)
        if sk is not None:
            i = sk
            continue
        if st[i][0] == 'ident' and i + 1 < body_close and st[i + 1][1] == '(':
            key = call_key(st, i)
            hit = key in eff
            if not hit and '::' in key and not key.startswith('.'):
                # `libfs::foo(` style paths: also try the bare name when declared with a `*::` wildcard
                hit = ('*::' + st[i][1]) in eff
            if hit and key == '.write' and st[i + 2][1] in ('true', 'false') and st[i + 3][1] == ')':
                # OpenOptions::write(bool), the builder method of the same name as File::write(&[u8])
                hit = False
            if hit and key in ('.is_dir', '.is_file', '.is_symlink') and _receiver_is_metadata(st, i, body_open):
                # the same method names exist on std::fs::Metadata / FileType (pure accessors of a snapshot, no world token)
                hit = False
            if hit:
                close = rtok.match_close(st, i + 1)
                inner = st[i + 2:close]
                if not inner or inner[-1][1] == ',':
                    add(st[close][2], WORLD_ARG)
                else:
                    add(st[close][2], ', ' + WORLD_ARG)
                ncalls += 1
                g.calls.append((key, g.src_start + text.count('\n', 0, st[i][2])))
        i += 1
    if ncalls:
        log.append('R1 ghost argument `%s` appended at %d call site(s)' % (WORLD_ARG, ncalls))

    # ---- rename
    if fs.rename and not sliced:
        log.append('D2 emitted as `%s`' % fs.rename)

    # ---- apply
    ins.sort(key=lambda x: (x[0], x[1]))
    pieces = []
    pos = 0
    for off, _, s, origin in ins:
        if off > pos:
            pieces.append(Piece(text[pos:off], ('src', pos)))
            pos = off
        pieces.append(Piece(s, origin))
    pieces.append(Piece(text[pos:], ('src', pos)))
    if fs.rename and not sliced:
        # rename: replace the name token text inside the src piece that contains it
        nm_s, nm_e = st[name_i][2], st[name_i][3]
        for p in pieces:
            if p.origin[0] == 'src' and p.origin[1] <= nm_s < p.origin[1] + len(p.text):
                rel = nm_s - p.origin[1]
                p.text = p.text[:rel] + fs.rename + p.text[rel + (nm_e - nm_s):]
                break
    g.out_lines = _pieces_to_lines(pieces, g, text)
    return g


def _pieces_to_lines(pieces, g, text):
    cur_line_origin = None
    line_buf = ''
    lines = []
    for p in pieces:
        parts = p.text.split('\n')
        for k, part in enumerate(parts):
            if k > 0:
                lines.append((line_buf, cur_line_origin or ('glue', None)))
                line_buf = ''
                cur_line_origin = None
            if part.strip():
                if p.origin[0] == 'src':
                    off = p.origin[1] + sum(len(x) + 1 for x in parts[:k])
                    o = ('src', g.src_start + text.count('\n', 0, off))
                else:
                    o = p.origin
                # obligation text wins over source on shared lines
                if cur_line_origin is None or (o[0] in ('ob', 'req') and cur_line_origin[0] == 'src'):
                    cur_line_origin = o
            line_buf += part
    lines.append((line_buf, cur_line_origin or ('glue', None)))
    return lines
