"""Locate items in /repo sources at token level and return their verbatim text.

Nothing here edits code: it only finds [start, end) offsets.  All rewriting
is done in gen.py through an explicit, logged edit list."""
from . import rtok


class AnchorLost(Exception):
    """The expected source shape was not found (exit 2, never an alarm)."""


def _scan_items(src):
    """yield (scope_stack, kind, name, hdr_start_sig_idx, body_open_sig_idx, body_close_sig_idx, st)
    for every fn item, where scope_stack is a list of normalized `impl ...`/`mod x`/`trait x` headers."""
    toks = rtok.lex(src)
    st = rtok.sig(toks)
    out = []

    def walk(lo, hi, scopes):
        i = lo
        while i < hi:
            k, t = st[i][0], st[i][1]
            if k == 'ident' and t in ('impl', 'mod', 'trait') and (i == lo or st[i - 1][1] not in ('.', '::')):
                # find the opening brace of this item (or `;` for `mod x;`)
                j = i + 1
                angle = 0
                while j < hi:
                    tj = st[j][1]
                    if st[j][0] == 'punct':
                        if tj == '<':
                            angle += 1
                        elif tj == '>':
                            angle -= 1
                        elif tj == '>>':
                            angle -= 2
                        elif tj == ';' and angle <= 0:
                            break
                        elif tj == '{' and angle <= 0:
                            break
                        elif tj in ('(', '['):
                            j = rtok.match_close(st, j)
                    j += 1
                if j >= hi or st[j][1] == ';':
                    i = j + 1
                    continue
                close = rtok.match_close(st, j)
                hdr = ' '.join(x[1] for x in st[i:j])
                # attributes directly before (to spot #[cfg(test)])
                attrs = _attrs_before(st, i)
                if 'cfg ( test )' in attrs:
                    i = close + 1
                    continue
                walk(j + 1, close, scopes + [hdr])
                i = close + 1
                continue
            if k == 'ident' and t == 'fn' and i + 1 < hi and st[i + 1][0] == 'ident':
                name = st[i + 1][1]
                # signature runs to the first `{` or `;` outside brackets
                j = i + 2
                while j < hi:
                    if st[j][0] == 'punct':
                        if st[j][1] in ('(', '['):
                            j = rtok.match_close(st, j)
                        elif st[j][1] in ('{', ';'):
                            break
                    j += 1
                if j >= hi or st[j][1] == ';':
                    i = j + 1
                    continue
                close = rtok.match_close(st, j)
                start = _item_start(st, i)
                out.append((list(scopes), name, start, i, j, close))
                i = close + 1
                continue
            if k == 'punct' and t == '{':
                # some other braced item (struct, enum, match in const...) - skip it whole
                i = rtok.match_close(st, i) + 1
                continue
            i += 1

    walk(0, len(st), [])
    return toks, st, out


def _attrs_before(st, i):
    """normalized text of the attribute tokens immediately preceding item token i"""
    parts = []
    j = i - 1
    # skip visibility / qualifiers
    while j >= 0:
        t = st[j][1]
        if t in ('pub', 'const', 'unsafe', 'async', 'extern', 'default'):
            j -= 1
            continue
        if t == ')' and j >= 3 and st[j - 1][1] in ('crate', 'super', 'self') and st[j - 2][1] == '(' and st[j - 3][1] == 'pub':
            j -= 4
            continue
        break
    while j >= 0 and st[j][1] == ']':
        # find matching [
        depth = 0
        k = j
        while k >= 0:
            if st[k][1] == ']':
                depth += 1
            elif st[k][1] == '[':
                depth -= 1
                if depth == 0:
                    break
            k -= 1
        if k >= 1 and st[k - 1][1] == '#':
            parts.append(' '.join(x[1] for x in st[k + 1:j]))
            j = k - 2
        else:
            break
    return ' | '.join(parts)


def _item_start(st, i):
    """index of the first token of the item whose `fn` keyword is st[i]: walks back over
    qualifiers and visibility (attributes are NOT included: they are dropped, D1)"""
    j = i - 1
    start = i
    while j >= 0:
        t = st[j][1]
        if t in ('pub', 'const', 'unsafe', 'async', 'default'):
            start = j
            j -= 1
            continue
        if t == ')' and j >= 3 and st[j - 1][1] in ('crate', 'super', 'self') and st[j - 2][1] == '(' and st[j - 3][1] == 'pub':
            start = j - 3
            j -= 4
            continue
        break
    return start


def find_fn(src, scope, name):
    """scope: None for a free function (not inside any impl), or a normalized impl header
    such as 'impl CopyHandle' / 'impl Drop for CopyHandle'.  Returns dict."""
    toks, st, items = _scan_items(src)
    want = rtok.norm(scope) if scope else None
    hits = []
    for scopes, nm, start, fn_i, open_i, close_i in items:
        if nm != name:
            continue
        impls = [s for s in scopes if s.startswith('impl') or s.startswith('trait')]
        if want is None and not impls:
            hits.append((start, fn_i, open_i, close_i))
        elif want is not None and impls and impls[-1] == want:
            hits.append((start, fn_i, open_i, close_i))
    if len(hits) != 1:
        raise AnchorLost('function %s%s: %d candidates' % ((scope + ' :: ') if scope else '', name, len(hits)))
    start, fn_i, open_i, close_i = hits[0]
    s_off = st[start][2]
    e_off = st[close_i][3]
    return {
        'text': src[s_off:e_off],
        'start_off': s_off,
        'end_off': e_off,
        'start_line': src.count('\n', 0, s_off) + 1,
        'end_line': src.count('\n', 0, e_off) + 1,
    }


def find_item_text(src, kind_and_name):
    """verbatim text of a `struct X {..}` / `enum X {..}` / `const X: T = ..;` item (used for type mirrors)"""
    toks = rtok.lex(src)
    st = rtok.sig(toks)
    want = kind_and_name.split()
    for i in range(len(st) - len(want)):
        if [x[1] for x in st[i:i + len(want)]] == want:
            j = i
            while st[j][1] not in ('{', ';'):
                if st[j][1] in ('(', '['):
                    j = rtok.match_close(st, j)
                j += 1
            if st[j][1] == '{':
                j = rtok.match_close(st, j)
            return src[st[i][2]:st[j][3]]
    raise AnchorLost('item %s not found' % kind_and_name)
