"""Counterexample search on the REAL code for obligations Verus fails without a model (DESIGN.md §3.8).
Only the pure function family is covered: libfs::merge_extents (public API, so a scratch crate with a path dependency on a
scratch copy of /repo/libfs can call it).  The search is bounded and is NOT the deciding step: it only turns a failed obligation
into a replayable input; when it finds nothing the VIOLATION line ends with `no-failing-input-found`."""
import os
import re
import json
import shutil
import tempfile
import subprocess

from .driver import REPO

MERGE_MAIN = r'''
use libfs::{merge_extents, Extent};

fn covered(s: &[(u64, u64)], b: u64) -> bool { s.iter().any(|(a, e)| *a <= b && b < *e) }
fn in_gap(s: &[(u64, u64)], b: u64) -> bool { s.windows(2).any(|w| w[0].1 == b && w[1].0 == b + 1) }

/// executable copies of the postconditions of merge_extents (contracts/10_libfs.spec)
fn check(input: &[(u64, u64)]) -> Option<String> {
    let exts: Vec<Extent> = input.iter().map(|(a, e)| Extent { start: *a, end: *e, shared: false }).collect();
    let out = match std::panic::catch_unwind(|| merge_extents(exts)) {
        Ok(Ok(v)) => v,
        Ok(Err(e)) => return Some(format!("returned Err({})", e)),
        Err(_) => return Some("panicked".to_string()),
    };
    let o: Vec<(u64, u64)> = out.iter().map(|e| (e.start, e.end)).collect();
    let hi = input.iter().map(|x| x.1).max().unwrap_or(0) + 2;
    for b in 0..hi {
        if covered(input, b) && !covered(&o, b) { return Some(format!("byte {} is covered by the input but not by the output {:?}", b, o)); }
        if covered(&o, b) && !covered(input, b) && !in_gap(input, b) { return Some(format!("byte {} is covered by the output {:?} but is neither input data nor an adjacent-gap byte", b, o)); }
    }
    for (a, e) in &o {
        if !input.iter().any(|x| x.0 == *a) { return Some(format!("output start {} is not an input start (output {:?})", a, o)); }
        if !input.iter().any(|x| x.1 == *e) { return Some(format!("output end {} is not an input end (output {:?})", e, o)); }
        if a > e { return Some(format!("output extent ({},{}) is ill-formed", a, e)); }
    }
    for w in o.windows(2) { if w[0].1 > w[1].0 { return Some(format!("output {:?} is not ordered/disjoint", o)); } }
    if o.len() > input.len() { return Some(format!("output {:?} has more extents than the input", o)); }
    None
}

fn rec(cur: &mut Vec<(u64, u64)>, from: u64, max: u64, left: usize, found: &mut Option<(Vec<(u64, u64)>, String)>, n: &mut u64) {
    if found.is_some() { return; }
    *n += 1;
    if let Some(why) = check(cur) { *found = Some((cur.clone(), why)); return; }
    if left == 0 { return; }
    for a in from..max {
        for e in (a + 1)..=max {
            cur.push((a, e));
            rec(cur, e, max, left - 1, found, n);
            cur.pop();
            if found.is_some() { return; }
        }
    }
}

fn main() {
    let args: Vec<String> = std::env::args().collect();
    if args.len() > 1 {
        // replay mode: xs = "a-e,a-e,..."
        let input: Vec<(u64, u64)> = args[1].split(',').filter(|s| !s.is_empty()).map(|p| { let mut it = p.split('-'); (it.next().unwrap().parse().unwrap(), it.next().unwrap().parse().unwrap()) }).collect();
        match check(&input) { Some(why) => { println!("FAIL {:?} :: {}", input, why); std::process::exit(1) } None => { println!("OK {:?}", input); } }
        return;
    }
    // all sorted, pairwise disjoint extent lists (non-empty extents) over offsets 0..=11 with at most 4 extents
    let mut found = None; let mut n = 0u64;
    rec(&mut Vec::new(), 0, 11, 4, &mut found, &mut n);
    match found {
        Some((input, why)) => println!("CEX {} :: {} :: {}", input.iter().map(|(a, e)| format!("{}-{}", a, e)).collect::<Vec<_>>().join(","), why, n),
        None => println!("NONE {}", n),
    }
}
'''


def _build_merge(wd):
    shutil.copytree(os.path.join(REPO, 'libfs'), os.path.join(wd, 'libfs'), ignore=shutil.ignore_patterns('target'))
    with open(os.path.join(wd, 'libfs', 'Cargo.toml'), 'a') as f:
        f.write('\n[workspace]\n')
    shutil.copy(os.path.join(REPO, 'Cargo.lock'), os.path.join(wd, 'libfs', 'Cargo.lock'))
    os.makedirs(os.path.join(wd, 'mx', 'src'))
    with open(os.path.join(wd, 'mx', 'Cargo.toml'), 'w') as f:
        f.write('[package]\nname = "mx"\nversion = "0.0.0"\nedition = "2021"\n\n[dependencies]\nlibfs = { path = "../libfs" }\n\n[workspace]\n')
    shutil.copy(os.path.join(REPO, 'Cargo.lock'), os.path.join(wd, 'mx', 'Cargo.lock'))
    with open(os.path.join(wd, 'mx', 'src', 'main.rs'), 'w') as f:
        f.write(MERGE_MAIN)
    env = dict(os.environ, CARGO_NET_OFFLINE='true', CARGO_TARGET_DIR=os.path.join(wd, 'target'))
    p = subprocess.run(['cargo', 'build', '--offline', '-q'], cwd=os.path.join(wd, 'mx'), env=env, stdout=subprocess.PIPE, stderr=subprocess.STDOUT, text=True, timeout=900)
    if p.returncode != 0:
        return None, p.stdout[-800:]
    return os.path.join(wd, 'target', 'debug', 'mx'), ''


def find(pid, oid, o, G, diags):
    """returns a counterexample dict or None"""
    if o.get('fid') != 'libfs::merge_extents':
        return None
    wd = tempfile.mkdtemp(prefix='xcpverif-cex-')
    try:
        exe, err = _build_merge(wd)
        if not exe:
            return None
        p = subprocess.run([exe], stdout=subprocess.PIPE, stderr=subprocess.DEVNULL, text=True, timeout=900)
        m = re.search(r'^CEX (\S*) :: (.*) :: (\d+)$', p.stdout, re.M)
        if not m:
            return None
        return {'family': 'merge_extents', 'input_extents': m.group(1), 'what_fails': m.group(2), 'cases_tried': int(m.group(3)),
                'search_space': 'all sorted, pairwise disjoint lists of at most 4 non-empty extents over offsets 0..=11, against executable copies of the postconditions',
                'note': 'found by bounded search on the real libfs::merge_extents; the deciding step was the failed Verus obligation'}
    except Exception:
        return None
    finally:
        shutil.rmtree(wd, ignore_errors=True)


def replay(r):
    cex = r['counterexample']
    if cex.get('family') != 'merge_extents':
        print('no replay driver for this family')
        return 2
    wd = tempfile.mkdtemp(prefix='xcpverif-cex-')
    try:
        exe, err = _build_merge(wd)
        if not exe:
            print('could not build the replay driver:', err)
            return 2
        p = subprocess.run([exe, cex['input_extents']], stdout=subprocess.PIPE, stderr=subprocess.STDOUT, text=True, timeout=300)
        print('replay on the real libfs::merge_extents of the current tree:', p.stdout.strip())
        return 1 if p.returncode != 0 else 0
    finally:
        shutil.rmtree(wd, ignore_errors=True)
