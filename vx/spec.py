"""Parser for /verif/contracts/*.spec (see contracts/README.md for the format)."""
import re
import os

TAG_RE = re.compile(r'^\[([A-Za-z0-9 ,]*)\]\s*(.*)$')


class SpecError(Exception):
    pass


class Clause:
    def __init__(self, tags, text, kind, origin):
        self.tags = tags        # list of property ids
        self.text = text        # verus expression text (may be multi-line)
        self.kind = kind        # requires / ensures / invariant / decreases / block
        self.origin = origin    # file:line in the .spec
        self.oid = None         # obligation id, filled by gen


class Loop:
    def __init__(self, n):
        self.n = n
        self.iter = None
        self.invariants = []
        self.invariants_xb = []
        self.decreases = []
        self.ensures = []
        self.is_invariant_except_break = False


class Insert:
    def __init__(self, where, anchor, tags, origin, loop=None):
        self.where = where    # before / after / at_start / loop_end / loop_start
        self.anchor = anchor
        self.hint = 'hint' in tags   # a pure proof step: its failure alone makes the property undecided, not violated
        self.each = 'each' in tags   # insert at every statement that begins with the anchor
        self.optional = 'optional' in tags   # a proof step for a statement that may be absent: no anchor, no insert
        self.tags = [t for t in tags if t not in ('hint', 'each', 'optional')]
        self.lines = []
        self.origin = origin
        self.loop = loop
        self.oid = None


class FnSpec:
    def __init__(self, fid, origin):
        self.fid = fid            # e.g. libfs::copy_range_uspace
        self.origin = origin
        self.src = None
        self.scope = None         # impl header in the source, None = free fn
        self.emit = None          # impl header in gen.rs ('free' = free fn); default = scope
        self.rename = None
        self.safety = []
        self.noworld = False
        self.external = False     # emit as external_body with this contract (trusted), body not verified
        self.rewrites = []        # list of (kind, arg, origin)
        self.requires = []
        self.ensures = []
        self.loops = {}
        self.inserts = []
        self.slice = None         # dict for sliced functions
        self.sig = None           # explicit signature (slices, lifted closures)
        self.tail = None
        self.attrs = []           # extra attributes on the emitted fn
        self.unit = fid.split('::')[0]
        self.extra_effectful = []
        self.not_effectful = []
        self.returns = None       # override for named-return
        self.skipped = False      # body left out of this run because it is outside the verifier's subset (undecided, not trusted)
        self.is_item = False      # verbatim type/const item rather than a function
        self.what = None
        self.at = None
        self.strip_attrs = False

    @property
    def name(self):
        # src_name: the function was found under another name in the source (R19, renamed function with an unchanged body)
        return getattr(self, 'src_name', None) or self.fid.split('::')[-1]


def _tags(s):
    return [t for t in re.split(r'[ ,]+', s.strip()) if t]


def parse_file(path):
    fns = []
    cur = None
    section = None      # ('requires'|'ensures'|'invariant'|'decreases'|'loopensures'|'insert'|None)
    curloop = None
    curins = None
    curclause = None
    base = os.path.basename(path)
    with open(path) as f:
        lines = f.read().split('\n')
    for ln, raw in enumerate(lines, 1):
        origin = '%s:%d' % (base, ln)
        line = raw.rstrip()
        s = line.strip()
        if s.startswith('@'):
            curclause = None
            m = re.match(r'^@(\w+)\s*(.*)$', s)
            d, arg = m.group(1), m.group(2).strip()
            if d in ('fn', 'item'):
                cur = FnSpec(arg, origin)
                cur.is_item = (d == 'item')
                fns.append(cur)
                section = None
                curloop = None
                curins = None
                continue
            if cur is None:
                raise SpecError('%s: directive before @fn' % origin)
            if d == 'src':
                cur.src = arg
            elif d == 'what':
                cur.what = arg
            elif d == 'at':
                cur.at = arg
            elif d == 'strip_attrs':
                cur.strip_attrs = True
            elif d == 'scope':
                cur.scope = arg
            elif d == 'emit':
                cur.emit = arg
            elif d == 'rename':
                cur.rename = arg
            elif d == 'safety':
                cur.safety = _tags(arg)
            elif d == 'noworld':
                cur.noworld = True
            elif d == 'external':
                cur.external = True
            elif d == 'attr':
                cur.attrs.append(arg)
            elif d == 'effectful':
                cur.extra_effectful += arg.split()
            elif d == 'not_effectful':
                cur.not_effectful += arg.split()
            elif d == 'returns':
                cur.returns = arg
            elif d == 'rewrite':
                kind, _, rest = arg.partition(' ')
                cur.rewrites.append((kind, rest.strip(), origin))
            elif d == 'slice':
                # @slice loopbody <n> | range
                cur.slice = {'kind': arg.split()[0], 'arg': ' '.join(arg.split()[1:])}
            elif d == 'slice_from':
                cur.slice['from'] = arg
            elif d == 'slice_to':
                cur.slice['to'] = arg
            elif d == 'within':
                cur.slice['within'] = arg
            elif d == 'sig':
                cur.sig = arg
                section = 'sig'
                continue
            elif d == 'tail':
                cur.tail = arg
            elif d in ('requires', 'ensures'):
                if curloop is not None and d == 'ensures' and arg == 'loop':
                    section = 'loopensures'
                else:
                    section = d
                    curloop = None
            elif d == 'loop':
                n = int(arg.split()[0])
                curloop = cur.loops.setdefault(n, Loop(n))
                section = None
            elif d == 'iter':
                curloop.iter = arg
            elif d == 'invariant':
                section = 'invariant'
            elif d == 'invariant_except_break':
                section = 'invariant_xb'
            elif d == 'loop_ensures':
                section = 'loopensures'
            elif d == 'decreases':
                section = 'decreases'
            elif d in ('before', 'after', 'at_start', 'loop_end', 'loop_start', 'at_end', 'at_end_before_tail'):
                m2 = TAG_RE.match(arg)
                tags, anchor = ([], arg)
                if m2:
                    tags, anchor = _tags(m2.group(1)), m2.group(2)
                loopn = None
                if d in ('loop_end', 'loop_start'):
                    parts = anchor.split()
                    loopn = int(parts[0])
                    m3 = TAG_RE.match(' '.join(parts[1:]))
                    if m3 and not tags:
                        tags = _tags(m3.group(1))
                    anchor = ''
                curins = Insert(d, anchor, tags, origin, loopn)
                cur.inserts.append(curins)
                section = 'insert'
            elif d == 'end':
                section = None
            else:
                raise SpecError('%s: unknown directive @%s' % (origin, d))
            continue
        if cur is None or section is None:
            continue
        if section == 'sig':
            if s:
                cur.sig += ' ' + s
            continue
        if section == 'insert':
            curins.lines.append(line)
            continue
        if not s or s.startswith('//'):
            continue
        m = TAG_RE.match(s)
        if m:
            curclause = Clause(_tags(m.group(1)), m.group(2), section, origin)
            if section == 'requires':
                cur.requires.append(curclause)
            elif section == 'ensures':
                cur.ensures.append(curclause)
            elif section == 'invariant':
                curloop.invariants.append(curclause)
            elif section == 'invariant_xb':
                curloop.invariants_xb.append(curclause)
            elif section == 'decreases':
                curloop.decreases.append(curclause)
            elif section == 'loopensures':
                curloop.ensures.append(curclause)
        else:
            if curclause is None:
                raise SpecError('%s: clause text without [tags]' % origin)
            curclause.text += '\n' + line
    return fns


def load_dir(d):
    fns = []
    for fn in sorted(os.listdir(d)):
        if fn.endswith('.spec'):
            fns += parse_file(os.path.join(d, fn))
    seen = {}
    for f in fns:
        if f.fid in seen:
            raise SpecError('duplicate @fn %s (%s, %s)' % (f.fid, f.origin, seen[f.fid]))
        seen[f.fid] = f.origin
    return fns
