"""Property checks: ./check <Cxx> [--tier quick|thorough], ./check all, ./check lock, ./check replay <file>"""
import os
import re
import sys
import json
import time
import shutil
import tempfile
import threading
import subprocess

from . import driver, vacuity
from .driver import VERIF, REPO, ToolError

LOCK = os.path.join(VERIF, 'obligations.lock')
KNOWN = os.path.join(VERIF, 'known_findings.json')
EVID = os.path.join(VERIF, 'evidence')
REPLAYS = os.path.join(VERIF, 'replays')

CLAIMED = None  # filled from MANIFEST
# bounded stand-ins: which kinds of failing case (vx/bounded.py `report(kind, ..)`) speak against which property
BOUNDED_KINDS = {
    'C09': {'is_num_backup', 'next_backup_num', 'relative_spellings', 'symlinked_destinations', 'backup_kinds', 'next_backup_num_extreme', 'non_backup', 'parse_backup'},
    'C15': {'parse_reflink'},
    'C16': {'reject_reflink', 'reject_backup', 'reject_driver', 'parse_driver', 'glob_missing'},
    'C02': {'glob_expansion'},
}
BOUNDED_WHAT = {
    'C09': 'libxcp::backup::{is_num_backup, next_backup_num, has_backup, get_backup_path} (string/regex/ReadDir code outside Verus) and the --backup value table (Backup::from_str)',
    'C15': 'the --reflink value table (Reflink::from_str: string matching, outside Verus)',
    'C16': 'rejection of unknown --reflink/--backup/--driver values and the --driver table (FromStr impls: string matching, outside Verus); expand_globs (iterator adapters over the glob crate, outside Verus): a pattern that selects nothing is a missing source',
    'C02': 'expand_globs (iterator adapters over the glob crate, outside Verus): the expansion is exactly the set of names the patterns select',
}


def props_claimed():
    with open(os.path.join(VERIF, 'MANIFEST.json')) as f:
        m = json.load(f)
    return [c['property_id'] for c in m['checks']]


def load_known():
    if not os.path.exists(KNOWN):
        return []
    with open(KNOWN) as f:
        return json.load(f).get('findings', [])


def contract_oids(G):
    """obligations defined by the contract files (stable against edits of /repo)"""
    return {oid: o for oid, o in G.obligations.items() if o['kind'] != 'call-requires' and o.get('origin') not in ('R12', 'auto-monotone-loop', 'auto-frame-loop', 'auto-hoist-loop')}


def lock_table(G):
    t = {}
    for oid, o in sorted(contract_oids(G).items()):
        t[oid] = sorted(o['tags'])
    return t


def cmd_lock(args):
    G = driver.assemble()
    wd = tempfile.mkdtemp(prefix='xcpverif-')
    try:
        res = driver.run_verus(G, wd)
        failed, tool, _ = driver.classify(G, res)
    finally:
        shutil.rmtree(wd, ignore_errors=True)
    if tool:
        for t in tool:
            print('TOOL', t)
        print('not locking: tool errors')
        return 2
    known = {k['obligation_id'] for k in load_known() if k.get('status') == 'open' and 'obligation_id' in k}
    bad = [o for o in failed if o not in known]
    if bad:
        print('not locking: obligations fail on this tree and are not known findings:')
        for b in bad:
            print('  ', b)
        return 2
    with open(LOCK, 'w') as f:
        json.dump({'obligations': lock_table(G), 'binders': {fid: g.binders for fid, g in sorted(G.fns.items()) if not g.spec.external},
                   'shapes': {fid: g.shape for fid, g in sorted(G.fns.items()) if g.shape}}, f, indent=1, sort_keys=True)
    print('locked %d contract obligations (%d call-site obligations are counted per run)' % (
        len(contract_oids(G)), len(G.obligations) - len(contract_oids(G))))
    return 0


class _Text:
    def __init__(self, text):
        self.text = text


def run_pair(G, Gc, wd, rlimit=None):
    """verus on the real file, on the canary file and on the probe file (reachability of every result variant of every trusted
    contract, vx/vacuity.py), concurrently"""
    out = {}
    ptext, probes, pskipped = vacuity.make_probes(G.text)

    def a():
        out['main'] = driver.run_verus(G, wd, rlimit=rlimit, threads=8, name='gen.rs')

    def b():
        out['canary'] = driver.run_verus(Gc, wd, rlimit=rlimit, threads=4, name='canary.rs')

    def c():
        out['probes'] = driver.run_verus(_Text(ptext), wd, threads=4, name='probes.rs', multiple_errors=400)

    ts = [threading.Thread(target=f) for f in (a, b, c)]
    for t in ts:
        t.start()
    for t in ts:
        t.join()
    return out['main'], out['canary'], (probes, pskipped, out['probes'])


def eval_probes(pr):
    """-> (summary dict, list of tool messages)"""
    probes, pskipped, res = pr
    failed, verified, broken = vacuity.evaluate(probes, res['diags'])
    allow = vacuity.load_allow()
    byid = {p['id']: p for p in probes}
    bad = []
    allowed = []
    for pid in verified:
        p = byid[pid]
        key = '%s/%s' % (p['target'], p['variant'])
        if key in allow:
            allowed.append('%s (%s)' % (key, allow[key]))
        else:
            bad.append(key)
    msgs = []
    compile_errs = [d.get('message', '')[:160] for d in res['diags'] if d.get('level') == 'error' and d.get('code')]
    if res.get('json') is None or compile_errs:
        msgs.append('probe file did not go through Verus: %s' % (compile_errs[:2] or res.get('raw_out', '')[:200]))
    if bad:
        msgs.append('trusted contract is contradictory: result variant unreachable under the assumed contract of %s (see prelude/vacuity_allow.txt)' % sorted(bad))
    if broken:
        msgs.append('probe broken: %s' % broken[:3])
    summary = {'probes': len(probes), 'failed_as_required': len(failed), 'unreachable_by_design': allowed, 'contradictory': sorted(bad),
               'not_probed': pskipped, 'wall_s': round(res['wall_s'], 1)}
    return summary, msgs


def site_of(G, oid):
    o = G.obligations.get(oid)
    if not o:
        return None
    g = G.fns.get(o['fid'])
    if not g:
        return None
    return '%s:%d-%d' % (g.src_path, g.src_start, g.src_end)


def sanitize(s):
    return re.sub(r'[^A-Za-z0-9_.#-]+', '_', s)


def check_property(pid, tier, seed, shared=None):
    t0 = time.time()
    if shared is None:
        shared = run_all(tier)
    G, Gc, res, resc, failed, tool, fn_status, canary_bad, extra = shared
    if tool:
        for t in tool:
            print('UNDECIDED: %s' % t)
        return 2
    with open(LOCK) as f:
        lock = json.load(f)['obligations']
    skipped = extra.get('skipped', [])
    skipped_hit = []
    if skipped:
        # obligations of a left-out function are in the lock table but not in this run's table: which properties do they carry?
        skipped_hit = sorted({oid.split('/')[0] for oid, tags in lock.items() if pid in tags and oid.split('/')[0] in skipped})
        # a clause of this property that fails in a function that *was* verified (against the left-out function's contract) is a violation
        # all the same; only without one is the property undecided
        any_failed = any(pid in G.obligations[o]['tags'] and G.obligations[o]['kind'] != 'proof-hint' for o in failed if o in G.obligations)
        if skipped_hit and not any_failed:
            print('UNDECIDED: %s has obligations in %s, whose body is outside the verifier subset in this tree' % (pid, skipped_hit))
            return 2
    mine = {oid: o for oid, o in G.obligations.items() if pid in o['tags']}
    mine_contract = {oid for oid, o in mine.items() if o['kind'] != 'call-requires' and o.get('origin') not in ('R12', 'auto-monotone-loop', 'auto-frame-loop', 'auto-hoist-loop')}
    locked = {oid for oid, tags in lock.items() if pid in tags}
    if not mine:
        print('UNDECIDED: no obligation carries property %s (vacuous check)' % pid)
        return 2
    if skipped_hit:
        locked = {o for o in locked if o.split('/')[0] not in skipped}
    if mine_contract != locked:
        print('UNDECIDED: contract obligations of %s differ from obligations.lock (run ./check lock): +%s -%s' % (
            pid, sorted(mine_contract - locked)[:5], sorted(locked - mine_contract)[:5]))
        return 2
    # vacuity: canaries of the functions carrying this property's obligations must all have failed
    my_fids = {o['fid'] for o in mine.values()}
    vac = [f for f in canary_bad if f in my_fids]
    if vac:
        print('UNDECIDED: canary assert(false) verified in %s: contradictory assumptions' % vac)
        return 2

    known = [k for k in load_known() if k.get('status') == 'open' and pid in k.get('properties', [])]
    known_ids = {k['obligation_id']: k for k in known if 'obligation_id' in k}
    violations = []
    known_hit = []
    for oid, diags in failed.items():
        o = G.obligations.get(oid)
        if not o or pid not in o['tags']:
            continue
        if oid in known_ids:
            known_hit.append((oid, known_ids[oid]))
            continue
        violations.append((oid, diags))
    # A failed *proof hint* (an assertion inside an inserted proof block) is not a contract clause: Verus assumes it afterwards, so what was
    # proved after it rests on an unproved step.  Alone it makes the property undecided, never violated; next to failed clauses it is
    # recorded in their replay files only.
    hint_only = [v for v in violations if G.obligations[v[0]]['kind'] == 'proof-hint']
    violations = [v for v in violations if G.obligations[v[0]]['kind'] != 'proof-hint']

    # obligations listed as open known findings are reported separately, not counted as proved or as owed
    known_oids = {oid for oid, _ in known_hit}
    owed = {oid: o for oid, o in mine.items() if oid not in known_oids}
    discharged = len(owed) - len([1 for oid in owed if oid in failed])
    # evidence
    fns = sorted(my_fids)
    fn_info = []
    for fid in fns:
        g = G.fns[fid]
        vname = None
        ms = None
        for k, v in fn_status.items():
            if k.endswith('::' + (g.spec.rename or g.spec.name)) or k.endswith('::' + fid.split('::', 1)[1]):
                vname, ms = k, v['ms']
        fn_info.append({'fn': fid, 'source': '%s:%d-%d' % (g.src_path, g.src_start, g.src_end), 'sha256_16': g.src_hash,
                        'edits': g.edits, 'smt_ms': ms, 'trusted': bool(g.spec.external), 'sliced': bool(g.spec.slice)})
    samples = []
    seen_fn = set()
    # one substantial clause per function, the longest first, so that a reader sees what obligations look like
    for oid in sorted(mine, key=lambda x: -len(mine[x]['text'])):
        o = mine[oid]
        if o['fid'] in seen_fn or o['kind'] in ('safety', 'proof-block', 'proof-hint'):
            continue
        seen_fn.add(o['fid'])
        samples.append({'obligation': oid, 'kind': o['kind'], 'clause': o['text'][:400], 'contract': o['origin'],
                        'status': 'failed' if oid in failed else 'discharged'})
        if len(samples) >= 6:
            break
    lemmas = sorted(k.split('::')[-1] for k, v in fn_status.items() if v.get('mode') == 'proof' and v.get('ok'))
    j = res.get('json') or {}
    ev = {
        'property_id': pid, 'tier': tier, 'seed': seed, 'level': 'proof',
        'coverage': {
            'obligations': len(owed), 'discharged': discharged,
            'obligations_excluded_as_known_findings': sorted(known_oids),
            'checker_cmd': res['cmd'].replace(os.path.dirname(res['cmd'].split()[1]), '<scratch>'),
            'trusted_base': sorted(set(G.trusted)),
            'functions_under_contract': fn_info,
            'obligation_kinds': {k: len([1 for o in mine.values() if o['kind'] == k]) for k in sorted({o['kind'] for o in mine.values()})},
            'samples': samples,
            'lemmas_proved': lemmas,
            'backend': 'Verus %s / Z3 (single-file mode)' % (j.get('verus', {}).get('version', '?')),
            'verus_summary': j.get('verification-results'),
            'smt_time_ms_total': j.get('times-ms', {}).get('smt', {}).get('total'),
            'verus_wall_s': round(res['wall_s'], 2),
            'canaries': {'functions': len(Gc.fns), 'failed_as_required': len(Gc.fns) - len(canary_bad) - len([1 for g in Gc.fns.values() if g.spec.external]),
                         'verified_wrongly': canary_bad},
            'trusted_contract_probes': extra.get('vacuity'),
            'known_findings_hit': [k[0] for k in known_hit],
            'generated_file_sha256_16': G.hash,
            'items_extracted_verbatim': G.items,
            'explanation': 'Every obligation is a clause of a contract attached to a function body re-extracted from /repo on this run; '
                           'discharged = Verus reported no error that maps to the clause. Call-site obligations are the callee requires clauses at each call in an extracted body.',
        },
        'assumptions': ASSUMPTIONS + extra.get('assumptions', []),
        'wall_s': round(time.time() - t0 + res['wall_s'], 2),
        'violations': len(violations),
    }
    ev['coverage'].update(extra.get('coverage', {}))
    os.makedirs(EVID, exist_ok=True)
    with open(os.path.join(EVID, pid + '.json'), 'w') as f:
        json.dump(ev, f, indent=1)

    if tier == 'thorough':
        from . import thorough
        tt, _ = thorough.tightness(pid, workers=5)
        ev['coverage']['tightness_mutants'] = tt
        ev['coverage']['seeded_changes_regression'] = thorough.seeds(pid, workers=5)
        ev['coverage']['harmless_changes_regression'] = thorough.harmless_for(G, pid, cap=8, workers=4, seed=int(seed or 0))
        from . import automut
        ev['coverage']['systematic_mutants'] = automut.for_property(G, pid, cap=24, workers=5, seed=int(seed or 0))
        # Kani leaves: complete (loop-free, full-domain) proofs on the compiled code; a failing one is a violation of C05/C01
        if pid in ('C05', 'C01') and extra.get('kani_failed'):
            for h in extra['kani_failed']:
                violations.append(('kani:' + h, [{'message': 'Kani harness failed', 'spans': [], 'site_line': None, 'site_text': None,
                                                   'detail': extra['coverage']['kani_leaves']['harnesses'][h]['tail']}]))
                G.obligations['kani:' + h] = {'oid': 'kani:' + h, 'fid': 'libfs::try_copy_file_range', 'kind': 'kani-leaf', 'tags': ['C05', 'C01'],
                                              'text': 'loop-free Kani harness over full-domain symbolic inputs', 'origin': 'vx/thorough.py'}
            ev['violations'] = len(violations)
        with open(os.path.join(EVID, pid + '.json'), 'w') as f:
            json.dump(ev, f, indent=1)

    # bounded stand-ins on the real code (labelled bounded, never counted in obligations/discharged)
    bounded_viol = None
    if pid in BOUNDED_KINDS:
        from . import bounded
        b = dict(bounded.backup_bounded())
        # the failures that belong to this property (one enumeration serves C09, C15 and C16)
        b['failures'] = [f for f in b['failures'] if f.split(' ::')[0].strip() in BOUNDED_KINDS[pid]]
        ev['coverage']['bounded'] = {'what': BOUNDED_WHAT[pid],
                                     'label': 'bounded - exhaustive over the stated finite space only, not a proof', 'ok': not b['failures'],
                                     **{k: b[k] for k in ('cases', 'bound', 'failures', 'wall_s')}}
        if not b['built']:
            print('UNDECIDED: bounded check (backup.rs / option values) did not build/run: %s' % b['tail'][-300:])
            return 2
        if b['failures']:
            bounded_viol = b
            ev['violations'] = ev.get('violations', 0) + 1
        with open(os.path.join(EVID, pid + '.json'), 'w') as f:
            json.dump(ev, f, indent=1)

    for oid, k in known_hit:
        print('KNOWN-FINDING: property=%s obligation=%s %s' % (pid, oid, k.get('what', '')))
    if bounded_viol:
        os.makedirs(REPLAYS, exist_ok=True)
        rp = os.path.join(REPLAYS, '%s-bounded.json' % pid)
        with open(rp, 'w') as f:
            json.dump({'property': pid, 'obligation': 'bounded:' + BOUNDED_WHAT[pid], 'kind': 'bounded', 'kinds': sorted(BOUNDED_KINDS[pid]),
                       'clause': 'for every case of the stated finite space: backups are recognised, the next number exceeds every existing one, the chosen backup path does not exist; every spelling of an option value means its variant and everything else is rejected',
                       'contract': 'vx/bounded.py', 'function': 'libxcp::backup / libxcp::config / libxcp::drivers', 'repo_source': 'libxcp/src/backup.rs, libxcp/src/config.rs, libxcp/src/drivers/mod.rs',
                       'verifier': 'native enumeration on the real code (cargo test on a scratch copy)', 'verifier_output': [],
                       'counterexample': {'failing_inputs': bounded_viol['failures']}, 'how_to_replay': './check replay %s' % rp}, f, indent=1)
        print('VIOLATION property=%s replay=%s' % (pid, rp))
        if not violations:
            return 1
    if violations:
        os.makedirs(REPLAYS, exist_ok=True)
        for oid, diags in violations:
            o = G.obligations[oid]
            rp = os.path.join(REPLAYS, '%s-%s.json' % (pid, sanitize(oid)))
            cex = None
            try:
                from . import search
                cex = search.find(pid, oid, o, G, diags)
            except Exception as e:  # the search is best effort, never the deciding step
                cex = None
            with open(rp, 'w') as f:
                json.dump({'property': pid, 'obligation': oid, 'kind': o['kind'], 'clause': o['text'], 'contract': o['origin'],
                           'function': o['fid'], 'repo_source': site_of(G, oid),
                           'verifier': 'verus', 'verifier_output': diags, 'failed_proof_hints_in_same_run': [v[0] for v in hint_only],
                           'counterexample': cex,
                           'how_to_replay': './check replay %s' % rp}, f, indent=1)
            tail = '' if cex else ' no-failing-input-found'
            print('VIOLATION property=%s replay=%s%s' % (pid, rp, tail))
        return 1
    if hint_only:
        print('UNDECIDED: proof hint(s) %s of %s no longer verify while every contract clause does: the proof needs repair, no clause of the property failed' % (
            [v[0] for v in hint_only][:4], pid))
        return 2
    print('OK property=%s obligations=%d discharged=%d functions=%d verus=%.1fs' % (pid, len(owed), discharged, len(fns), res['wall_s']))
    return 0


ASSUMPTIONS = [
    'A-kernel: the system-call contracts of prelude/root_20_std.rs, root_25_path.rs, root_27_xattr.rs (every external_body there) are assumed, not proved',
    'A-stable: no other process modifies sources or destinations during the run',
    'A-pool/A-drop: thread pool runs each job once; Drop runs after the last use; a Rust main returning Err exits non-zero',
    'A-walk: with walkdir\'s other settings at their defaults the walk of a root is a fixed finite sequence walk_of(root, follow) that delivers every entry once, a directory before its contents; with follow_links it descends through links to directories, reports the referent\'s type and delivers a loop or a dangling link as an error item; a DirEntry carries the type the walk saw',
    'A-ignore: the ignore crate decides exclusion (gi_ignored) by git\'s pattern semantics from the root and files the builder was given; walkdir\'s filter_entry applies the filter to every entry and prunes beneath a rejected directory; a .gitignore that cannot be read is dropped by GitignoreBuilder::add without an error xcp sees',
    'A-probe: Path::exists/is_dir/is_file answer truthfully (std turns any stat failure into false)',
    'A-log: a log line changes nothing in the model except, in errno-reading functions (R28), the thread errno; kerrno_at(trace position) is the kernel answer of the failed libc call at that position',
    'bounded stand-ins (backup-name code, option-value tables, expand_globs) are exhaustive over their stated finite spaces only',
    'A-eintr: a read is interrupted only finitely often (World.eintr_left)',
    'A-off_t: offsets and extent ends fit in i64; usize is 64 bit (global size_of usize == 8)',
    'A-panic: panic! is divergence',
    'unsafe code trusted: libfs::linux::fiemap (raw-pointer ioctl), the ioctl call inside reflink',
    'machine arithmetic is NOT treated as mathematical: Verus checks overflow on every executable operation',
    'the extractor/generator (vx/), the prelude type mirrors, Verus and Z3 are trusted',
]


def run_all(tier):
    """Run Verus on the real file and the canary file.  If the generated file does not compile because of text inside some function bodies
    (a construct outside the subset, an API without stand-in), those functions are left out (contract kept, body dropped) and the run is
    repeated: only the properties with obligations in such functions become undecided, the others are still decided."""
    skip = set()
    for attempt in range(3):
        G = driver.assemble(skip=skip)
        Gc = driver.assemble(canary=True, skip=skip)
        wd = tempfile.mkdtemp(prefix='xcpverif-')
        try:
            res, resc, pr = run_pair(G, Gc, wd, rlimit=(60 if tier == 'thorough' else None))
        finally:
            shutil.rmtree(wd, ignore_errors=True)
        failed, tool, fn_status = driver.classify(G, res)
        if tool and G.tool_fids and not G.tool_unmapped and not (G.tool_fids <= skip) and attempt < 2:
            print('NOTE: leaving out %s (outside the verifier subset in this tree): %s' % (sorted(G.tool_fids), tool[0][:160]))
            skip |= G.tool_fids
            continue
        break
    if res.get('json') is None:
        tool.append('verus produced no JSON: %s' % (res.get('raw_out', '')[:300] + ' '.join(res['raw_err'][:5])))
    failedc, toolc, _ = driver.classify(Gc, resc)
    canary_bad = []
    if toolc:
        tool += ['canary file: ' + t for t in toolc]
    else:
        for fid, g in Gc.fns.items():
            if g.spec.external or g.spec.fid in NO_FALLTHROUGH:
                continue
            if (fid + '/canary') not in failedc:
                canary_bad.append(fid)
    extra = {}
    vsum, vmsgs = eval_probes(pr)
    if not tool:
        tool += vmsgs
    extra['vacuity'] = vsum
    if tier == 'thorough':
        from . import thorough
        extra = thorough.run(G)
        extra['vacuity'] = vsum
        if extra.get('tool'):
            tool += extra['tool']
    extra['skipped'] = sorted(set(skip) | set(G.anchor_skipped))
    extra['skipped_reasons'] = dict(G.anchor_skipped)
    for f, why in sorted(G.anchor_skipped.items()):
        print('NOTE: leaving out %s (%s)' % (f, why))
    return G, Gc, res, resc, failed, tool, fn_status, canary_bad, extra


# functions whose body has no fall-through path (every path returns/diverges): a canary there is vacuous
NO_FALLTHROUGH = set()


def cmd_replay(args):
    if not args:
        print('usage: ./check replay <replay.json>')
        return 2
    with open(args[0]) as f:
        r = json.load(f)
    print('property   :', r['property'])
    print('obligation :', r['obligation'])
    print('clause     :', r['clause'])
    print('function   :', r['function'], '(', r.get('repo_source'), ')')
    for d in r['verifier_output']:
        print('verus      :', d['message'], '| at repo line', d.get('site_line'), '|', d.get('site_text'))
    if r.get('kind') == 'bounded':
        print('counterexample (failing inputs at the time):', json.dumps(r['counterexample'], indent=1))
        from . import bounded
        b = bounded.backup_bounded()
        kinds = set(r.get('kinds') or BOUNDED_KINDS.get(r.get('property'), ()))
        fl = [f for f in b['failures'] if not kinds or f.split(' ::')[0].strip() in kinds]
        print('re-run on the current tree:', 'no failing input' if not fl else json.dumps(fl, indent=1))
        return 0 if not fl else 1
    if r.get('counterexample'):
        print('counterexample:', json.dumps(r['counterexample'], indent=1))
        from . import search
        return search.replay(r)
    print('no concrete input attached (Verus gives none): re-running the obligation on the current tree')
    shared = run_all('quick')
    failed = shared[4]
    if r['obligation'] in failed:
        print('STILL FAILS on the current tree')
        return 1
    print('obligation is discharged on the current tree')
    return 0


def main(argv):
    tier = os.environ.get('VERIF_TIER', 'quick')
    seed = int(os.environ.get('VERIF_SEED', '0') or 0)
    args = []
    i = 0
    while i < len(argv):
        if argv[i] == '--tier':
            tier = argv[i + 1]
            i += 2
            continue
        args.append(argv[i])
        i += 1
    if args[0] == 'lock':
        return cmd_lock(args[1:])
    if args[0] == 'replay':
        return cmd_replay(args[1:])
    if args[0] == 'all':
        shared = run_all(tier)
        rc = 0
        for pid in props_claimed():
            r = check_property(pid, tier, seed, shared)
            rc = max(rc, r)
        return rc
    if re.match(r'^C\d+$', args[0]):
        return check_property(args[0], tier, seed)
    print('unknown command', args[0])
    return 2
