"""Thorough tier extras (DESIGN.md §3.9): tightness mutants, conformance build, Kani leaves, assumption sampling.
None of this is the deciding step of a property check; results go into the evidence file.  A failure of the
machinery here is reported as `tool` (exit 2), never as a violation."""
import os
import re
import sys
import json
import time
import shutil
import tempfile
import subprocess
from concurrent.futures import ThreadPoolExecutor

from . import driver
from .driver import VERIF, REPO
from .extract import AnchorLost
from .rtok import LexError as rtok_LexError
from .spec import SpecError

MUTANTS = os.path.join(VERIF, 'mutants', 'mutants.json')


def copy_sources(dst):
    for sub in ('src', 'libfs/src', 'libxcp/src'):
        shutil.copytree(os.path.join(REPO, sub), os.path.join(dst, sub))


def run_mutant(m, known_oids):
    wd = tempfile.mkdtemp(prefix='xcpverif-mut-')
    try:
        copy_sources(wd)
        p = os.path.join(wd, m['file'])
        with open(p) as f:
            s = f.read()
        if s.count(m['from']) != 1:
            return {'id': m['id'], 'status': 'stale', 'detail': 'pattern occurs %d times' % s.count(m['from'])}
        with open(p, 'w') as f:
            f.write(s.replace(m['from'], m['to']))
        try:
            G = driver.assemble(repo=wd)
        except (AnchorLost, SpecError) as e:
            return {'id': m['id'], 'status': 'undecided', 'detail': 'anchor lost: %s' % e}
        res = driver.run_verus(G, wd, threads=4)
        failed, tool, _ = driver.classify(G, res)
        if tool:
            return {'id': m['id'], 'status': 'undecided', 'detail': tool[0][:300]}
        hints = [o for o in failed if o not in known_oids and G.obligations[o]['kind'] == 'proof-hint']
        fo = [o for o in failed if o not in known_oids and G.obligations[o]['kind'] != 'proof-hint']
        props = sorted({t for o in fo for t in G.obligations[o]['tags']})
        if m['file'] in ('libxcp/src/backup.rs', 'libxcp/src/config.rs', 'libxcp/src/drivers/mod.rs', 'src/main.rs'):
            # files with a bounded stand-in: the enumeration runs on the mutated copy as well
            from . import bounded
            from .checks import BOUNDED_KINDS
            b = bounded.backup_bounded(overlay=wd)
            kinds = {f.split(' ::')[0].strip() for f in b.get('failures', [])}
            bp = sorted(p_ for p_, ks in BOUNDED_KINDS.items() if ks & kinds)
            if bp:
                fo = fo + ['bounded:' + k for k in sorted(kinds)]
                props = sorted(set(props) | set(bp))
        if fo:
            return {'id': m['id'], 'status': 'killed', 'by': fo[:6], 'props': props}
        if hints:
            return {'id': m['id'], 'status': 'undecided', 'detail': 'only proof hints fail: %s' % hints[:3]}
        if G.anchor_skipped:
            return {'id': m['id'], 'status': 'undecided', 'detail': 'left out: %s' % sorted(G.anchor_skipped.items())[:1]}
        return {'id': m['id'], 'status': 'survived'}
    finally:
        shutil.rmtree(wd, ignore_errors=True)


def tightness(pid=None, workers=4):
    with open(MUTANTS) as f:
        ms = json.load(f)
    if pid:
        ms = [m for m in ms if pid in m['props']]
    from .checks import load_known
    known = {k['obligation_id'] for k in load_known() if k.get('status') == 'open' and 'obligation_id' in k}
    t0 = time.time()
    with ThreadPoolExecutor(max_workers=workers) as ex:
        results = list(ex.map(lambda m: run_mutant(m, known), ms))
    byid = {m['id']: m for m in ms}
    out = {'total': len(ms), 'killed': 0, 'survived': [], 'undecided': [], 'stale': [], 'killed_by_other_property_only': [],
           'equivalent_survivors': [], 'wall_s': round(time.time() - t0, 1), 'samples': []}
    for r in results:
        m = byid[r['id']]
        if r['status'] == 'killed':
            out['killed'] += 1
            if pid and pid not in r['props']:
                out['killed_by_other_property_only'].append({'id': r['id'], 'props': r['props']})
            if len(out['samples']) < 4:
                out['samples'].append({'mutant': r['id'], 'note': m['note'], 'failed': r['by'][:3]})
        elif r['status'] == 'survived':
            if m.get('equivalent'):
                out['equivalent_survivors'].append(r['id'])
            else:
                out['survived'].append({'id': r['id'], 'note': m['note']})
        elif r['status'] == 'undecided':
            out['undecided'].append({'id': r['id'], 'detail': r['detail']})
        else:
            out['stale'].append({'id': r['id'], 'detail': r['detail']})
    return out, results


def run_seed(sdir, known_oids):
    """apply seeded/<id>/patch.diff to a scratch copy of the sources (never to /repo) and report which properties alarm"""
    meta = json.load(open(os.path.join(sdir, 'meta.json')))
    wd = tempfile.mkdtemp(prefix='xcpverif-seed-')
    try:
        copy_sources(wd)
        p = subprocess.run(['patch', '-p1', '-s', '-i', os.path.join(sdir, 'patch.diff')], cwd=wd, stdout=subprocess.PIPE, stderr=subprocess.STDOUT, text=True)
        if p.returncode != 0:
            return {'seed': os.path.basename(sdir), 'status': 'stale', 'detail': p.stdout[-200:]}
        # same degradation as the real check: functions whose body leaves the subset are left out (contract kept) and the run repeated
        skip = set()
        for attempt in range(3):
            try:
                G = driver.assemble(repo=wd, skip=skip)
            except (AnchorLost, SpecError, rtok_LexError) as e:
                return {'seed': os.path.basename(sdir), 'status': 'undecided', 'detail': str(e)[:200], 'expected': meta.get('detected_by')}
            res = driver.run_verus(G, wd, threads=4)
            failed, tool, _ = driver.classify(G, res)
            if tool and G.tool_fids and not G.tool_unmapped and not (G.tool_fids <= skip) and attempt < 2:
                skip |= G.tool_fids
                continue
            break
        if tool and not any(o not in known_oids and G.obligations[o]['kind'] != 'proof-hint' for o in failed):
            return {'seed': os.path.basename(sdir), 'status': 'undecided', 'detail': tool[0][:200], 'expected': meta.get('detected_by')}
        hints = [o for o in failed if o not in known_oids and G.obligations[o]['kind'] == 'proof-hint']
        fo = [o for o in failed if o not in known_oids and G.obligations[o]['kind'] != 'proof-hint']
        props = sorted({t for o in fo for t in G.obligations[o]['tags']})
        # the bounded stand-ins, when the change touches a file they enumerate
        ptxt = open(os.path.join(sdir, 'patch.diff')).read()
        if any(f in ptxt for f in ('libxcp/src/backup.rs', 'libxcp/src/config.rs', 'libxcp/src/drivers/mod.rs', 'src/main.rs')):
            from . import bounded
            from .checks import BOUNDED_KINDS
            b = bounded.backup_bounded(overlay=wd)
            kinds = {f.split(' ::')[0].strip() for f in b.get('failures', [])}
            bp = sorted(p for p, ks in BOUNDED_KINDS.items() if ks & kinds)
            if bp:
                fo = fo + ['bounded:' + k for k in sorted(kinds)]
                props = sorted(set(props) | set(bp))
        hprops = sorted({t for o in hints for t in G.obligations[o]['tags']} - set(props))
        skip = set(skip) | set(G.anchor_skipped)
        return {'seed': os.path.basename(sdir), 'status': 'alarm' if fo else ('undecided' if (hints or skip) else 'silent'), 'props': props, 'undecided_props': hprops,
                'left_out': sorted(skip), 'expected': meta.get('detected_by'), 'target': meta.get('property')}
    finally:
        shutil.rmtree(wd, ignore_errors=True)


def seeds(pid=None, workers=3):
    """regression over the kept seeded changes (Verus part only; the bounded C09 seeds are exercised by the bounded check itself)"""
    from .checks import load_known
    known = {k['obligation_id'] for k in load_known() if k.get('status') == 'open' and 'obligation_id' in k}
    root = os.path.join(VERIF, 'seeded')
    dirs = []
    extra = []
    for d in sorted(os.listdir(root)):
        mp = os.path.join(root, d, 'meta.json')
        if os.path.exists(mp):
            m = json.load(open(mp))
            # per property: the changes seeded *for* this property, plus (capped) those it was seen to alarm on as well
            if pid is None or m.get('property') == pid:
                dirs.append(os.path.join(root, d))
            elif pid in m.get('detected_by', []):
                extra.append(os.path.join(root, d))
    dirs += extra[:6]
    with ThreadPoolExecutor(max_workers=workers) as ex:
        return list(ex.map(lambda d: run_seed(d, known), dirs))


def run_harmless(path, known_oids):
    """apply one behaviour-preserving refactoring (harmless/<name>.diff, written by independent sub-agents) to a scratch copy and report:
    'quiet' (every obligation verifies), 'undecided' (outside the subset / anchor lost / hint only) or 'FALSE-ALARM'"""
    name = os.path.basename(path)[:-5]
    wd = tempfile.mkdtemp(prefix='xcpverif-harm-')
    try:
        copy_sources(wd)
        p = subprocess.run(['patch', '-p1', '-s', '-i', path], cwd=wd, stdout=subprocess.PIPE, stderr=subprocess.STDOUT, text=True)
        if p.returncode != 0:
            return {'patch': name, 'status': 'stale', 'detail': p.stdout[-200:]}
        skip = set()
        for attempt in range(3):
            try:
                G = driver.assemble(repo=wd, skip=skip)
            except (AnchorLost, SpecError, rtok_LexError) as e:
                return {'patch': name, 'status': 'undecided', 'detail': str(e)[:200]}
            res = driver.run_verus(G, wd, threads=4)
            failed, tool, _ = driver.classify(G, res)
            if tool and G.tool_fids and not G.tool_unmapped and not (G.tool_fids <= skip) and attempt < 2:
                skip |= G.tool_fids
                continue
            break
        fo = [o for o in failed if o not in known_oids and G.obligations[o]['kind'] != 'proof-hint']
        hints = [o for o in failed if o not in known_oids and G.obligations[o]['kind'] == 'proof-hint']
        if fo:
            return {'patch': name, 'status': 'FALSE-ALARM', 'props': sorted({t for o in fo for t in G.obligations[o]['tags']}), 'by': fo[:6]}
        ptxt = open(path).read()
        if any(f in ptxt for f in ('libxcp/src/backup.rs', 'libxcp/src/config.rs', 'libxcp/src/drivers/mod.rs', 'src/main.rs')):
            from . import bounded
            b = bounded.backup_bounded(overlay=wd)
            if not b.get('built'):
                return {'patch': name, 'status': 'undecided', 'detail': 'bounded stand-in did not build: %s' % b.get('tail', '')[-200:]}
            if b.get('failures'):
                return {'patch': name, 'status': 'FALSE-ALARM', 'props': ['bounded'], 'by': b['failures'][:3]}
        if tool and not skip:
            return {'patch': name, 'status': 'undecided', 'detail': tool[0][:200]}
        skip = set(skip) | set(G.anchor_skipped)
        if skip or hints:
            return {'patch': name, 'status': 'undecided', 'detail': 'functions outside the subset after the change: %s %s' % (sorted(skip), hints[:2])}
        return {'patch': name, 'status': 'quiet'}
    finally:
        shutil.rmtree(wd, ignore_errors=True)


def harmless_for(G, pid, cap=8, workers=4, seed=0):
    """thorough tier: a sample of the harmless-change set that touches source files of the functions carrying `pid` (precision self-test)"""
    import random
    from .checks import load_known
    known = {k['obligation_id'] for k in load_known() if k.get('status') == 'open' and 'obligation_id' in k}
    files_of_pid = {G.fns[o['fid']].src_path for o in G.obligations.values() if pid in o['tags'] and o['fid'] in G.fns}
    root = os.path.join(VERIF, 'harmless')
    cands = []
    for f in sorted(os.listdir(root)):
        if f.endswith('.diff'):
            txt = open(os.path.join(root, f)).read()
            touched = set(re.findall(r'^\+\+\+ b/(\S+)', txt, re.M))
            if touched & files_of_pid:
                cands.append(os.path.join(root, f))
    random.Random(seed).shuffle(cands)
    pick = cands[:cap]
    with ThreadPoolExecutor(max_workers=workers) as ex:
        res = list(ex.map(lambda f: run_harmless(f, known), pick))
    return {'available_for_these_files': len(cands), 'run': len(pick), 'quiet': sum(1 for r in res if r['status'] == 'quiet'),
            'undecided': [r['patch'] for r in res if r['status'] in ('undecided', 'stale')],
            'false_alarms': [{'patch': r['patch'], 'props': r.get('props')} for r in res if r['status'] == 'FALSE-ALARM']}


def harmless(workers=4):
    from .checks import load_known
    known = {k['obligation_id'] for k in load_known() if k.get('status') == 'open' and 'obligation_id' in k}
    root = os.path.join(VERIF, 'harmless')
    files = sorted(os.path.join(root, f) for f in os.listdir(root) if f.endswith('.diff'))
    with ThreadPoolExecutor(max_workers=workers) as ex:
        return list(ex.map(lambda f: run_harmless(f, known), files))


# ---------------------------------------------------------------------------------------------------------------
CONF_MAIN = r'''
// conformance build: the constants the prelude copies and the call shapes its stand-ins mirror, checked by rustc
// against the real crates the repository builds with (same Cargo.lock).
use std::fs::File;
const _: () = assert!(libc::EOPNOTSUPP == 95 && libc::EINVAL == 22 && libc::EXDEV == 18 && libc::ETXTBSY == 26);
const _: () = assert!(libc::EPERM == 1 && libc::EIO == 5 && libc::EAGAIN == 11 && libc::EACCES == 13 && libc::EBUSY == 16 && libc::ENOSPC == 28 && libc::ENOSYS == 38 && libc::ENOTSUP == 95);
const _: () = assert!(rustix::io::Errno::IO.raw_os_error() == 5 && rustix::io::Errno::AGAIN.raw_os_error() == 11 && rustix::io::Errno::ACCESS.raw_os_error() == 13 && rustix::io::Errno::BUSY.raw_os_error() == 16 && rustix::io::Errno::INVAL.raw_os_error() == 22 && rustix::io::Errno::NOSPC.raw_os_error() == 28 && rustix::io::Errno::INTR.raw_os_error() == 4 && rustix::io::Errno::OPNOTSUPP.raw_os_error() == 95);
const _: () = assert!(linux_raw_sys::ioctl::FICLONE == 0x40049409);
const _: () = assert!(linux_raw_sys::ioctl::FIEMAP_EXTENT_LAST == 0x1 && linux_raw_sys::ioctl::FIEMAP_EXTENT_SHARED == 0x2000);
const _: () = assert!(linux_raw_sys::ioctl::FIEMAP_EXTENT_UNKNOWN == 2 && linux_raw_sys::ioctl::FIEMAP_EXTENT_DELALLOC == 4 && linux_raw_sys::ioctl::FIEMAP_EXTENT_ENCODED == 8 && linux_raw_sys::ioctl::FIEMAP_EXTENT_DATA_INLINE == 512 && linux_raw_sys::ioctl::FIEMAP_EXTENT_UNWRITTEN == 2048 && linux_raw_sys::ioctl::FIEMAP_EXTENT_MERGED == 4096 && linux_raw_sys::ioctl::FIEMAP_FLAG_SYNC == 1);
const _: () = assert!(rustix::io::Errno::NOSYS.raw_os_error() == 38 && rustix::io::Errno::PERM.raw_os_error() == 1
    && rustix::io::Errno::XDEV.raw_os_error() == 18 && rustix::io::Errno::NXIO.raw_os_error() == 6);
const _: () = assert!(std::mem::size_of::<usize>() == 8);
#[allow(dead_code)]
fn shapes(a: &File, b: &File, p: &std::path::Path, buf: &mut [u8]) -> Result<(), Box<dyn std::error::Error>> {
    use std::os::unix::fs::MetadataExt;
    let mut x = 0u64; let mut y = 0u64;
    let _n: usize = rustix::fs::copy_file_range(a, Some(&mut x), b, Some(&mut y), 1usize)?;
    let _n: usize = rustix::fs::copy_file_range(a, None, b, None, 1usize)?;
    let _n: usize = rustix::io::pread(a, &mut *buf, 0u64)?;
    let _n: usize = rustix::io::pwrite(b, &*buf, 0u64)?;
    let _o: u64 = rustix::fs::seek(a, rustix::fs::SeekFrom::Data(0))?;
    let _o: u64 = rustix::fs::seek(a, rustix::fs::SeekFrom::Hole(0))?;
    let _o: u64 = rustix::fs::seek(a, rustix::fs::SeekFrom::Start(0))?;
    rustix::fs::ftruncate(b, 0u64)?;
    rustix::fs::fsync(b)?;
    let m = a.metadata()?;
    let _: (u64, u64, u64, u64, u32, u32) = (m.len(), m.rdev(), m.dev(), m.ino(), m.uid(), m.gid());
    let rm = rustix::fs::RawMode::from(std::os::unix::fs::PermissionsExt::mode(&m.permissions()));
    rustix::fs::mknodat(rustix::fs::CWD, p, rustix::fs::FileType::from_raw_mode(rm), rustix::fs::Mode::from_raw_mode(rm), m.rdev())?;
    std::os::unix::fs::fchown(b, Some(m.uid()), Some(m.gid()))?;
    b.set_permissions(m.permissions())?;
    b.set_times(std::fs::FileTimes::new().set_accessed(m.accessed()?).set_modified(m.modified()?))?;
    let _t: std::path::PathBuf = std::fs::read_link(p)?;
    let _t: std::path::PathBuf = std::fs::canonicalize(p)?;
    std::os::unix::fs::symlink(p, p)?; std::fs::remove_file(p)?; std::fs::create_dir_all(p)?; std::fs::rename(p, p)?;
    Ok(())
}
fn main() {}
'''


def conformance():
    """build a tiny crate against the locked dependency versions; a drifted constant or call shape is a build error"""
    wd = tempfile.mkdtemp(prefix='xcpverif-conf-')
    t0 = time.time()
    try:
        lock = open(os.path.join(REPO, 'Cargo.lock')).read()

        def ver(name):
            m = re.search(r'name = "%s"\nversion = "([^"]+)"' % re.escape(name), lock)
            return m.group(1) if m else None
        # versions as used by libfs (there may be several rustix versions in the lock: take the one libfs depends on)
        libfs_toml = open(os.path.join(REPO, 'libfs', 'Cargo.toml')).read()
        deps = {}
        for name in ('rustix', 'libc', 'linux-raw-sys'):
            m = re.search(r'^%s\s*=\s*(.*)$' % re.escape(name), libfs_toml, re.M)
            deps[name] = m.group(1) if m else '"*"'
        os.makedirs(os.path.join(wd, 'src'))
        with open(os.path.join(wd, 'Cargo.toml'), 'w') as f:
            f.write('[package]\nname = "xcpverif_conformance"\nversion = "0.0.0"\nedition = "2021"\n\n[dependencies]\n')
            for k, v in deps.items():
                f.write('%s = %s\n' % (k, v))
            f.write('\n[workspace]\n')
        with open(os.path.join(wd, 'src', 'main.rs'), 'w') as f:
            f.write(CONF_MAIN)
        shutil.copy(os.path.join(REPO, 'Cargo.lock'), os.path.join(wd, 'Cargo.lock'))
        env = dict(os.environ, CARGO_NET_OFFLINE='true', CARGO_TARGET_DIR=os.path.join(wd, 'target'))
        p = subprocess.run(['cargo', 'build', '--offline', '-q'], cwd=wd, env=env, stdout=subprocess.PIPE, stderr=subprocess.STDOUT, text=True)
        ok = p.returncode == 0
        return {'ok': ok, 'wall_s': round(time.time() - t0, 1), 'deps': deps, 'output': '' if ok else p.stdout[-1500:]}
    finally:
        shutil.rmtree(wd, ignore_errors=True)


# ---------------------------------------------------------------------------------------------------------------
KANI_MOD = r'''
#[cfg(kani)]
mod verif_kani {
    use super::*;
    use rustix::io::Errno;
    use std::os::fd::AsFd;

    static mut STUB_RET: i64 = 0;      // >= 0: Ok(n) ; < 0: Err(errno = -ret)
    static mut SEEN_LEN: usize = 0;
    static mut SEEN_IN: Option<u64> = None;
    static mut SEEN_OUT: Option<u64> = None;

    fn cfr_stub<InFd: AsFd, OutFd: AsFd>(_i: InFd, off_in: Option<&mut u64>, _o: OutFd, off_out: Option<&mut u64>, len: usize) -> rustix::io::Result<usize> {
        unsafe {
            SEEN_LEN = len;
            SEEN_IN = off_in.as_ref().map(|p| **p);
            SEEN_OUT = off_out.as_ref().map(|p| **p);
            if STUB_RET >= 0 { Ok(STUB_RET as usize) } else { Err(Errno::from_raw_os_error((-STUB_RET) as i32)) }
        }
    }

    fn files() -> (File, File) {
        use std::os::fd::FromRawFd;
        unsafe { (File::from_raw_fd(3), File::from_raw_fd(4)) }
    }

    /// complete (loop-free, full domain): classification of copy_file_range results on the compiled code
    #[kani::proof]
    #[kani::stub(rustix::fs::copy_file_range::copy_file_range, cfr_stub)]
    fn leaf_try_copy_file_range_classification() {
        let (a, b) = files();
        let bytes: u64 = kani::any();
        let ret: i64 = kani::any();
        kani::assume(ret >= -4095);
        kani::assume(ret < 0 || (ret as u64) <= bytes);
        unsafe { STUB_RET = ret; }
        let r = try_copy_file_range(&a, None, &b, None, bytes);
        unsafe { assert!(SEEN_LEN == bytes as usize); assert!(SEEN_IN.is_none() && SEEN_OUT.is_none()); }
        if ret >= 0 {
            match r { Some(Ok(n)) => assert!(n as i64 == ret), _ => assert!(false) }
        } else if ret == -38 || ret == -1 || ret == -18 {
            assert!(r.is_none());
        } else {
            match r { Some(Err(_)) => (), _ => assert!(false) }
        }
        std::mem::forget(a); std::mem::forget(b);
    }

    /// complete: copy_file_offset hands the same offset to both sides and the requested length, and returns the count
    #[kani::proof]
    #[kani::stub(rustix::fs::copy_file_range::copy_file_range, cfr_stub)]
    fn leaf_copy_file_offset_arguments() {
        let (a, b) = files();
        let bytes: u64 = kani::any();
        let off: i64 = kani::any();
        kani::assume(off >= 0);
        let ret: i64 = kani::any();
        kani::assume(ret >= 0 && (ret as u64) <= bytes);
        unsafe { STUB_RET = ret; }
        let r = copy_file_offset(&a, &b, bytes, off);
        unsafe {
            assert!(SEEN_LEN == bytes as usize);
            assert!(SEEN_IN == Some(off as u64));
            assert!(SEEN_OUT == Some(off as u64));
        }
        match r { Ok(n) => assert!(n as i64 == ret), Err(_) => assert!(false) }
        std::mem::forget(a); std::mem::forget(b);
    }
}
'''


def kani_leaves():
    """loop-free Kani harnesses over full-domain symbolic inputs on a scratch copy of the real libfs crate (complete, not bounded)"""
    wd = tempfile.mkdtemp(prefix='xcpverif-kani-')
    t0 = time.time()
    try:
        for item in ('libfs', 'Cargo.lock'):
            src = os.path.join(REPO, item)
            dst = os.path.join(wd, item)
            if os.path.isdir(src):
                shutil.copytree(src, dst, ignore=shutil.ignore_patterns('target'))
            else:
                shutil.copy(src, dst)
        shutil.copy(os.path.join(REPO, 'Cargo.lock'), os.path.join(wd, 'libfs', 'Cargo.lock'))
        with open(os.path.join(wd, 'libfs', 'Cargo.toml'), 'a') as f:
            f.write('\n[workspace]\n')
        with open(os.path.join(wd, 'libfs', 'src', 'linux.rs'), 'a') as f:
            f.write(KANI_MOD)
        env = dict(os.environ, CARGO_NET_OFFLINE='true', CARGO_TARGET_DIR=os.path.join(wd, 'target'))
        out = {}
        for h in ('leaf_try_copy_file_range_classification', 'leaf_copy_file_offset_arguments'):
            t1 = time.time()
            p = subprocess.run(['cargo', 'kani', '-Z', 'stubbing', '--harness', h], cwd=os.path.join(wd, 'libfs'), env=env,
                               stdout=subprocess.PIPE, stderr=subprocess.STDOUT, text=True, timeout=1500)
            txt = p.stdout
            ok = 'VERIFICATION:- SUCCESSFUL' in txt
            failed = 'VERIFICATION:- FAILED' in txt
            out[h] = {'status': 'successful' if ok else ('failed' if failed else 'tool-error'), 'wall_s': round(time.time() - t1, 1),
                      'tail': '' if ok else txt[-1200:]}
        return {'harnesses': out, 'wall_s': round(time.time() - t0, 1)}
    finally:
        shutil.rmtree(wd, ignore_errors=True)


# ---------------------------------------------------------------------------------------------------------------
def run(G, pid=None):
    """called once per thorough run: conformance build + Kani leaves"""
    extra = {'coverage': {}, 'assumptions': [], 'tool': []}
    c = conformance()
    extra['coverage']['conformance_build'] = c
    if not c['ok']:
        extra['tool'].append('conformance build failed (prelude drifted from the real APIs?): %s' % c['output'][-400:])
    from . import sampling
    try:
        sm = sampling.run()
    except Exception as e:
        sm = {'clauses': [], 'contradicted': [], 'skipped': ['sampling could not run: %s' % str(e)[:200]], 'n_clauses': 0}
    extra['coverage']['assumption_sampling'] = dict(sm, label='sampling against the sandbox kernel, not proof')
    if sm['contradicted']:
        extra['tool'].append('an assumed kernel contract is contradicted by this kernel: %s' % sm['contradicted'][:3])
    try:
        k = kani_leaves()
    except Exception as e:  # timeouts etc.
        k = {'harnesses': {}, 'error': str(e)[:300]}
    extra['coverage']['kani_leaves'] = k
    extra['kani_failed'] = [h for h, v in k.get('harnesses', {}).items() if v['status'] == 'failed']
    bad = [h for h, v in k.get('harnesses', {}).items() if v['status'] == 'tool-error']
    if bad or k.get('error'):
        extra['tool'].append('kani leaf harness did not run: %s %s' % (bad, k.get('error', '')))
    return extra
