"""Assumption sampling (thorough tier; labelled sampling, never counted as proof): executable copies of clauses of the assumed kernel
contracts (prelude/root_20_std.rs, root_25_path.rs) are evaluated against the real kernel on the sandbox filesystem for a handful of files.
A clause that this kernel contradicts is reported; the check then answers 'undecided' (exit 2), because every proof rests on the contracts."""
import os
import stat
import fcntl
import struct
import shutil
import tempfile
import errno

SEEK_DATA = getattr(os, 'SEEK_DATA', 3)
SEEK_HOLE = getattr(os, 'SEEK_HOLE', 4)
FS_IOC_FIEMAP = 0xC020660B
FIEMAP_EXTENT_LAST = 1


def _fiemap(fd, start, count=32):
    hdr = struct.pack('=QQLLLL', start, 0xFFFFFFFFFFFFFFFF, 0, 0, count, 0)
    buf = bytearray(hdr + b'\0' * (56 * count))
    fcntl.ioctl(fd, FS_IOC_FIEMAP, buf)
    mapped = struct.unpack_from('=L', buf, 20)[0]
    exts = []
    for i in range(mapped):
        lo, phys, ln, _r1, _r2, flags = struct.unpack_from('=QQQQQL', buf, 32 + 56 * i)
        exts.append((lo, ln, flags))
    return exts


def run():
    res = {'clauses': [], 'contradicted': [], 'skipped': []}

    def ok(name, cond, detail=''):
        res['clauses'].append(name)
        if not cond:
            res['contradicted'].append('%s %s' % (name, detail))

    d = tempfile.mkdtemp(prefix='xcpverif-sample-')
    try:
        # ---- a sparse file: data [1M,1M+64K), [3M,3M+4K), size 5M
        p = os.path.join(d, 'sparse')
        with open(p, 'wb') as f:
            f.truncate(5 << 20)
            f.seek(1 << 20); f.write(b'A' * 65536)
            f.seek(3 << 20); f.write(b'B' * 4096)
        os.sync()
        fd = os.open(p, os.O_RDONLY)
        size = os.fstat(fd).st_size
        # K-seek
        try:
            dpos = os.lseek(fd, 0, SEEK_DATA)
            ok('K-seek Data(p)=Ok(d): p <= d < len', 0 <= dpos < size)
            data = os.pread(fd, dpos, 0)
            ok('K-seek Data: [p,d) reads as zeros (holes_zero)', data == b'\0' * dpos)
            h = os.lseek(fd, dpos, SEEK_HOLE)
            ok('K-seek Hole(p)=Ok(h): p <= h <= len and h > p for p in data', dpos < h <= size)
            try:
                os.lseek(fd, 4 << 20, SEEK_DATA)
                ok('K-seek Data past the last data answers ENXIO', False, 'returned an offset')
            except OSError as e:
                ok('K-seek Data past the last data answers ENXIO', e.errno == errno.ENXIO)
            try:
                os.lseek(fd, size, SEEK_HOLE)
                ok('K-seek Hole(len) answers ENXIO', False)
            except OSError as e:
                ok('K-seek Hole(len) answers ENXIO', e.errno == errno.ENXIO)
            ok('K-seek Start(p) never answers ENXIO', os.lseek(fd, size + 10, os.SEEK_SET) == size + 10)
        except OSError as e:
            res['skipped'].append('SEEK_DATA/SEEK_HOLE not supported here: %s' % e)
        # K-fiemap
        try:
            k = []
            start = 0
            while True:
                page = _fiemap(fd, start)
                if not page:
                    break
                k += page
                if page[-1][2] & FIEMAP_EXTENT_LAST:
                    break
                start = page[-1][0] + page[-1][1]
            ok('K-fiemap extents have positive length and lie within off_t', all(l > 0 and lo + l < (1 << 63) for lo, l, _ in k))
            ok('K-fiemap extents sorted and pairwise disjoint', all(k[i][0] + k[i][1] <= k[i + 1][0] for i in range(len(k) - 1)))
            ok('K-fiemap LAST flag on the final extent only', all(bool(e[2] & FIEMAP_EXTENT_LAST) == (i == len(k) - 1) for i, e in enumerate(k)))
            whole = os.pread(fd, size, 0)
            cov = bytearray(size)
            for lo, l, _ in k:
                for x in range(lo, min(lo + l, size), 4096):
                    cov[x:x + 4096] = b'\1' * min(4096, size - x)
            ok('A-fiemap every non-zero byte lies in a reported extent (after sync)', all(cov[i] for i in range(size) if whole[i] != 0))
            p2 = _fiemap(fd, k[0][0] + k[0][1]) if len(k) > 1 else None
            if p2 is not None:
                ok('K-fiemap fm_start = end of extent i returns extent i+1 first', p2[0][0] == k[1][0])
        except OSError as e:
            res['skipped'].append('FIEMAP not supported here: %s' % e)
        # K-cfr
        q = os.path.join(d, 'out')
        ofd = os.open(q, os.O_WRONLY | os.O_CREAT | os.O_TRUNC, 0o600)
        os.ftruncate(ofd, size)
        ok('K-ftruncate extends with zeros and allocates nothing', os.fstat(ofd).st_size == size and os.fstat(ofd).st_blocks == 0)
        try:
            n = os.copy_file_range(fd, ofd, 65536, 1 << 20, 1 << 20)
            ok('K-cfr Ok(n): 0 < n <= len inside the file', 0 < n <= 65536)
            a = os.pread(fd, n, 1 << 20)
            b_fd = os.open(q, os.O_RDONLY)
            ok('K-cfr copies exactly src[pin..pin+n) to out[pout..pout+n)', os.pread(b_fd, n, 1 << 20) == a)
            ok('K-cfr leaves the rest of the destination untouched', os.pread(b_fd, 4096, 0) == b'\0' * 4096 and os.fstat(b_fd).st_size == size)
            ok('K-cfr at/after EOF returns 0', os.copy_file_range(fd, ofd, 4096, size, 0) == 0)
            ok('K-cfr with offsets leaves both cursors alone', os.lseek(ofd, 0, os.SEEK_CUR) == 0)
            os.close(b_fd)
        except OSError as e:
            res['skipped'].append('copy_file_range: %s' % e)
        os.close(ofd)
        os.close(fd)
        # K-create truncates the inode in place (aliases see it)
        a = os.path.join(d, 'a')
        with open(a, 'wb') as f:
            f.write(b'hello')
        os.link(a, os.path.join(d, 'a_hard'))
        ino = os.stat(a).st_ino
        open(os.path.join(d, 'a_hard'), 'wb').close()
        ok('K-create truncates the existing inode in place (hard link alias sees it)', os.stat(a).st_size == 0 and os.stat(a).st_ino == ino)
        # K-fchown clears set-ID bits
        if os.geteuid() == 0:
            s = os.path.join(d, 'suid')
            open(s, 'wb').close()
            os.chmod(s, 0o4755)
            sfd = os.open(s, os.O_RDONLY)
            os.fchown(sfd, 1000, 1000)
            m = stat.S_IMODE(os.fstat(sfd).st_mode)
            ok('K-fchown keeps every bit except set-ID bits (chown_mode)', (m & 0o1777) == 0o755)
            res['clauses'].append('observation: fchown cleared set-user-ID here: %s' % (not (m & 0o4000)))
            os.close(sfd)
            # K-mknod EEXIST, device number
            n1 = os.path.join(d, 'node')
            os.mknod(n1, stat.S_IFCHR | 0o600, os.makedev(1, 3))
            st = os.stat(n1)
            ok('K-mknod creates the requested type and device number', stat.S_ISCHR(st.st_mode) and st.st_rdev == os.makedev(1, 3))
            try:
                os.mknod(n1, stat.S_IFIFO | 0o600)
                ok('K-mknod on an existing name fails (EEXIST)', False)
            except OSError as e:
                ok('K-mknod on an existing name fails (EEXIST)', e.errno == errno.EEXIST)
        else:
            res['skipped'].append('fchown/mknod clauses need root')
        # unlink / rename act on the directory entry: every spelling stops resolving
        u = os.path.join(d, 'u')
        open(u, 'wb').close()
        os.unlink(os.path.join(d, '.', 'u'))
        ok('K-unlink removes the entry for every spelling', not os.path.exists(u))
        r1 = os.path.join(d, 'r1')
        with open(r1, 'wb') as f:
            f.write(b'x')
        ino = os.stat(r1).st_ino
        os.rename(os.path.join(d, 'sub/..', 'r1') if os.path.isdir(os.path.join(d, 'sub')) else r1, os.path.join(d, 'r2'))
        ok('K-rename moves the entry, inode and content untouched', not os.path.exists(r1) and os.stat(os.path.join(d, 'r2')).st_ino == ino)
        # stat / lstat: ENOENT is an answer (prelude: `Err` without fault exactly when nothing resolves / no entry)
        missing = os.path.join(d, 'no-such-name')
        dang = os.path.join(d, 'dangling')
        os.symlink(os.path.join(d, 'nowhere'), dang)
        for nm, pth in (('a missing name', missing), ('a dangling link', dang)):
            try:
                os.stat(pth)
                ok('K-stat of %s fails' % nm, False)
            except OSError as e:
                ok('K-stat of %s fails with ENOENT' % nm, e.errno == errno.ENOENT)
        try:
            os.lstat(missing)
            ok('K-lstat of a missing name fails', False)
        except OSError as e:
            ok('K-lstat of a missing name fails with ENOENT', e.errno == errno.ENOENT)
        ok('K-lstat of a dangling link succeeds and reports a symbolic link', stat.S_ISLNK(os.lstat(dang).st_mode))
        ok('A-probe exists() is false on a dangling link while the entry is there', (not os.path.exists(dang)) and os.path.lexists(dang))
        if os.geteuid() == 0:
            try:
                os.mknod(dang, stat.S_IFIFO | 0o600)
                ok('K-mknod onto a dangling link fails (EEXIST)', False)
            except OSError as e:
                ok('K-mknod onto a dangling link fails (EEXIST)', e.errno == errno.EEXIST)
        dang2 = os.path.join(d, 'dangling2')
        os.symlink(os.path.join(d, 'created-through-link'), dang2)
        fdc = os.open(dang2, os.O_WRONLY | os.O_CREAT | os.O_TRUNC, 0o600)
        os.close(fdc)
        ok('K-create through a dangling link creates the target and keeps the link', os.path.islink(dang2) and os.path.isfile(os.path.join(d, 'created-through-link')))
        # symlink EEXIST
        try:
            os.symlink('x', os.path.join(d, 'r2'))
            ok('K-symlink on an existing name fails (EEXIST)', False)
        except OSError as e:
            ok('K-symlink on an existing name fails (EEXIST)', e.errno == errno.EEXIST)
    finally:
        shutil.rmtree(d, ignore_errors=True)
    res['n_clauses'] = len([c for c in res['clauses'] if not c.startswith('observation')])
    return res


if __name__ == '__main__':
    import json
    print(json.dumps(run(), indent=1))
