"""Bounded stand-ins (DESIGN.md §5 C09): functions that cannot be brought within the verifier's reach are checked by
exhaustive enumeration of a stated, finite input space ON THE REAL CODE (a scratch copy of the crate with a test module
appended to the file whose private functions are needed).  Labelled `bounded` in the evidence, never counted as proved."""
import os
import re
import json
import time
import shutil
import tempfile
import subprocess

from .driver import REPO

BACKUP_MOD = r'''
#[cfg(test)]
mod verif_bounded {
    use super::*;
    use std::ffi::OsString;
    use std::os::unix::ffi::OsStringExt;
    use std::path::PathBuf;
    use std::fs::File;

    fn report(kind: &str, detail: String) { println!("VERIF-BOUNDED-FAIL {} :: {}", kind, detail); }

    /// every backup number 1..=2000 and a list of large ones is recognised, for plain, prefix-related and non-UTF-8 names
    #[test]
    fn bounded_is_num_backup() {
        let mut fails = 0;
        let big: [u64; 10] = [9999, 10000, 10001, 65535, 99999, 100000, 1000000, 4294967295, 4294967296, 1844674407370955161];
        let names: Vec<Vec<u8>> = vec![b"file.txt".to_vec(), b"f".to_vec(), b"a b".to_vec(), "na\u{ef}ve".as_bytes().to_vec(),
                                       b"f\xff".to_vec(), b"\xfe\xfdx.dat".to_vec(), b"file.txt.~1~".to_vec(), b"two\nlines.txt".to_vec()];
        for name in &names {
            let base = PathBuf::from(OsString::from_vec(name.clone()));
            let fname = filename(&base).unwrap();
            for n in (1u64..=2000).chain(big.iter().cloned()) {
                let mut c = name.clone();
                c.extend_from_slice(format!(".~{}~", n).as_bytes());
                let cand = PathBuf::from("/some/dir").join(PathBuf::from(OsString::from_vec(c)));
                let got = is_num_backup(&fname, &cand);
                if got != Some(n) {
                    fails += 1;
                    if fails <= 5 { report("is_num_backup", format!("name={:?} N={} got={:?}", base, n, got)); }
                }
            }
        }
        for bad in ["/d/file.txt", "/d/file.txt.~~", "/d/file.txt.~x~", "/d/file.txt.~1", "/d/other.~1~", "/d/file.txt.~-1~", "/d/file.txt.~1~x", "/d/file.txt.~ 1~"] {
            if is_num_backup("file.txt", &PathBuf::from(bad)).is_some() { fails += 1; report("is_num_backup", format!("non-backup {:?} recognised", bad)); }
        }
        assert!(fails == 0, "{} failures", fails);
    }

    /// for every subset of a universe of existing backup numbers (gaps, zeros in the number, large), for plain and non-UTF-8 names:
    /// the next number is greater than every existing one, has_backup says whether one exists, and the chosen path does not exist
    #[test]
    fn bounded_next_backup_num() {
        let universe: [u64; 10] = [1, 2, 9, 10, 11, 99, 100, 101, 205, 1000];
        let names: Vec<Vec<u8>> = vec![b"f.txt".to_vec(), b"f\xff".to_vec(), b"two\nlines.txt".to_vec()];
        let mut fails = 0;
        let mut cases = 0;
        for name in &names {
            for mask in 0u32..(1u32 << universe.len()) {
                if name[0] == b't' && mask % 37 != 0 && mask != 1023 { continue; }   // the third name: a sample of the subsets
                let dir = tempfile::TempDir::new().unwrap();
                let base = dir.path().join(PathBuf::from(OsString::from_vec(name.clone())));
                File::create(&base).unwrap();
                let mut maxn = 0u64;
                for (i, n) in universe.iter().enumerate() {
                    if mask & (1 << i) != 0 {
                        let mut c = name.clone();
                        c.extend_from_slice(format!(".~{}~", n).as_bytes());
                        File::create(dir.path().join(PathBuf::from(OsString::from_vec(c)))).unwrap();
                        if *n > maxn { maxn = *n; }
                    }
                }
                cases += 1;
                let next = next_backup_num(&base).unwrap();
                let hb = has_backup(&base).unwrap();
                let bp = get_backup_path(&base).unwrap();
                let mut ok = next == maxn + 1 && hb == (mask != 0) && !bp.exists();
                let mut want = name.clone();
                want.extend_from_slice(format!(".~{}~", maxn + 1).as_bytes());
                ok = ok && bp == dir.path().join(PathBuf::from(OsString::from_vec(want)));
                if !ok {
                    fails += 1;
                    if fails <= 5 { report("next_backup_num", format!("name={:?} existing-mask={:#b} max={} next={} has_backup={} path={:?}", PathBuf::from(OsString::from_vec(name.clone())), mask, maxn, next, hb, bp)); }
                }
            }
        }
        println!("VERIF-BOUNDED-CASES {}", cases);
        assert!(fails == 0, "{} failures", fails);
    }

    /// spellings of the destination: a bare name in the current directory, `./name`, `sub/name`, `sub/../name` (the backup code substitutes the
    /// absolute current directory for an empty parent): has_backup says whether a backup exists, the next number exceeds every existing one,
    /// the chosen path does not exist.  Changes the process' working directory: the bounded tests run single-threaded.
    #[test]
    fn bounded_relative_spellings() {
        let universe: [u64; 3] = [1, 2, 10];
        let mut fails = 0;
        let mut cases = 0;
        let keep = std::env::current_dir().unwrap();
        for mask in 0u32..(1u32 << universe.len()) {
            let dir = tempfile::TempDir::new().unwrap();
            std::fs::create_dir(dir.path().join("sub")).unwrap();
            std::env::set_current_dir(dir.path()).unwrap();
            for (spelling, home) in [("f.txt", "."), ("./f.txt", "."), ("sub/f.txt", "sub"), ("sub/../f.txt", ".")] {
                let homedir = dir.path().join(home);
                let _ = File::create(homedir.join("f.txt")).unwrap();
                let mut maxn = 0u64;
                for (i, n) in universe.iter().enumerate() {
                    let p = homedir.join(format!("f.txt.~{}~", n));
                    if mask & (1 << i) != 0 { File::create(&p).unwrap(); if *n > maxn { maxn = *n; } } else { let _ = std::fs::remove_file(&p); }
                }
                cases += 1;
                let base = PathBuf::from(spelling);
                let r = std::panic::catch_unwind(move || (has_backup(&base), next_backup_num(&base), get_backup_path(&base)));
                let ok = match r {
                    Ok((Ok(hb), Ok(n), Ok(bp))) => hb == (mask != 0) && n == maxn + 1 && !bp.exists()
                        && bp.file_name().map(|x| x.to_string_lossy().into_owned()) == Some(format!("f.txt.~{}~", maxn + 1)),
                    _ => false,
                };
                if !ok {
                    fails += 1;
                    if fails <= 5 { report("relative_spellings", format!("destination spelled {:?} (cwd = the directory), existing-mask={:#b} of (1,2,10): has_backup / next number / chosen path wrong", spelling, mask)); }
                }
            }
            std::env::set_current_dir(&keep).unwrap();
        }
        println!("VERIF-BOUNDED-CASES {}", cases);
        assert!(fails == 0, "{} failures", fails);
    }

    /// existing backups that are not regular files (xcp makes such backups itself: renaming a destination that is a symbolic link, a
    /// directory, a FIFO leaves an entry of that kind under the backup name): every kind of entry occupies its number
    #[test]
    fn bounded_backup_kinds() {
        let universe: [u64; 3] = [1, 2, 10];
        let mut fails = 0;
        let mut cases = 0;
        for kind in 0..5 {
            for only_highest in [false, true] {
                for mask in 1u32..(1u32 << universe.len()) {
                    let dir = tempfile::TempDir::new().unwrap();
                    let base = dir.path().join("f.txt");
                    File::create(&base).unwrap();
                    File::create(dir.path().join("referent")).unwrap();
                    let mut maxn = 0u64;
                    for (i, n) in universe.iter().enumerate() { if mask & (1 << i) != 0 && *n > maxn { maxn = *n; } }
                    for (i, n) in universe.iter().enumerate() {
                        if mask & (1 << i) == 0 { continue; }
                        let p = dir.path().join(format!("f.txt.~{}~", n));
                        let k = if only_highest && *n != maxn { 0 } else { kind };
                        match k {
                            0 => { File::create(&p).unwrap(); }
                            1 => { std::os::unix::fs::symlink("referent", &p).unwrap(); }
                            2 => { std::os::unix::fs::symlink("nowhere", &p).unwrap(); }
                            3 => { std::fs::create_dir(&p).unwrap(); }
                            _ => { assert!(std::process::Command::new("mkfifo").arg(&p).status().unwrap().success()); }
                        }
                    }
                    cases += 1;
                    let b2 = base.clone();
                    let r = std::panic::catch_unwind(move || (has_backup(&b2), next_backup_num(&b2), get_backup_path(&b2)));
                    let ok = match r {
                        Ok((Ok(hb), Ok(n), Ok(bp))) => hb && n == maxn + 1 && bp.symlink_metadata().is_err(),
                        _ => false,
                    };
                    if !ok {
                        fails += 1;
                        if fails <= 5 { report("backup_kinds", format!("existing backups mask={:#b} of (1,2,10), kind {} (0 file, 1 link to a file, 2 dangling link, 3 directory, 4 fifo){}: has_backup / next number / chosen path wrong (an earlier backup would be replaced)", mask, kind, if only_highest { " for the highest number only" } else { "" })); }
                    }
                }
            }
        }
        println!("VERIF-BOUNDED-CASES {}", cases);
        assert!(fails == 0, "{} failures", fails);
    }

    /// destinations reached through symbolic links: the backups of a name live beside that *name* (the rename acts on the name as given),
    /// wherever a link in the last component points; a linked parent directory is the same directory
    #[test]
    fn bounded_symlinked_destinations() {
        let universe: [u64; 3] = [1, 2, 10];
        let mut fails = 0;
        let mut cases = 0;
        for mask in 0u32..(1u32 << universe.len()) {
            let dir = tempfile::TempDir::new().unwrap();
            let d = dir.path().join("d");
            let real = dir.path().join("real");
            std::fs::create_dir(&d).unwrap();
            std::fs::create_dir(&real).unwrap();
            std::os::unix::fs::symlink(&d, dir.path().join("dlink")).unwrap();
            File::create(real.join("cfg")).unwrap();
            File::create(d.join("plain")).unwrap();
            std::os::unix::fs::symlink("../real/cfg", d.join("far")).unwrap();       // last component links into another directory
            std::os::unix::fs::symlink("plain", d.join("near")).unwrap();            // ... into the same directory
            // a decoy: backups of the referent's name in the *other* directory must not count
            File::create(real.join("cfg.~7~")).unwrap();
            for (dest, name) in [(d.join("far"), "far"), (d.join("near"), "near"), (dir.path().join("dlink").join("plain"), "plain")] {
                let mut maxn = 0u64;
                for (i, n) in universe.iter().enumerate() {
                    let p = d.join(format!("{}.~{}~", name, n));
                    if mask & (1 << i) != 0 { File::create(&p).unwrap(); if *n > maxn { maxn = *n; } } else { let _ = std::fs::remove_file(&p); }
                }
                cases += 1;
                let base = dest.clone();
                let r = std::panic::catch_unwind(move || (has_backup(&base), next_backup_num(&base), get_backup_path(&base)));
                let ok = match r {
                    Ok((Ok(hb), Ok(n), Ok(bp))) => hb == (mask != 0) && n == maxn + 1 && !bp.exists()
                        && bp.file_name().map(|x| x.to_string_lossy().into_owned()) == Some(format!("{}.~{}~", name, maxn + 1))
                        && bp.parent() == dest.parent(),
                    _ => false,
                };
                if !ok {
                    fails += 1;
                    if fails <= 5 { report("symlinked_destinations", format!("destination {:?} (far -> ../real/cfg, near -> plain, dlink -> d), existing-mask={:#b} of (1,2,10) beside the name: has_backup / next number / chosen path wrong", dest.strip_prefix(dir.path()).unwrap(), mask)); }
                }
            }
        }
        println!("VERIF-BOUNDED-CASES {}", cases);
        assert!(fails == 0, "{} failures", fails);
    }

    /// the ends of the number range: every subset of {0, 1, u64::MAX - 1, u64::MAX} as existing backups.  The next number must exceed every
    /// existing one and name a path that does not exist; when no such number exists the only acceptable answer is an error (no wrap-around,
    /// no saturation onto an existing backup, no arithmetic panic)
    #[test]
    fn bounded_next_backup_num_extreme() {
        let universe: [u64; 4] = [0, 1, u64::MAX - 1, u64::MAX];
        let names: Vec<Vec<u8>> = vec![b"f.txt".to_vec(), b"f\xff".to_vec()];
        let mut fails = 0;
        let mut cases = 0;
        for name in &names {
            for mask in 0u32..(1u32 << universe.len()) {
                let dir = tempfile::TempDir::new().unwrap();
                let base = dir.path().join(PathBuf::from(OsString::from_vec(name.clone())));
                File::create(&base).unwrap();
                let mut maxn: Option<u64> = None;
                for (i, n) in universe.iter().enumerate() {
                    if mask & (1 << i) != 0 {
                        let mut c = name.clone();
                        c.extend_from_slice(format!(".~{}~", n).as_bytes());
                        File::create(dir.path().join(PathBuf::from(OsString::from_vec(c)))).unwrap();
                        if maxn.map_or(true, |m| *n > m) { maxn = Some(*n); }
                    }
                }
                cases += 1;
                let b2 = base.clone();
                let r = std::panic::catch_unwind(move || (next_backup_num(&b2), get_backup_path(&b2)));
                let ok = match r {
                    Err(_) => false,
                    Ok((Ok(n), Ok(bp))) => maxn.map_or(true, |m| n > m) && !bp.exists(),
                    Ok((Err(_), Err(_))) => maxn == Some(u64::MAX),
                    Ok(_) => false,
                };
                if !ok {
                    fails += 1;
                    if fails <= 5 { report("next_backup_num_extreme", format!("name={:?} existing-mask={:#b} (of 0,1,MAX-1,MAX) max={:?}: panicked, or a number not above every existing one, or an existing path", PathBuf::from(OsString::from_vec(name.clone())), mask, maxn)); }
                }
            }
        }
        println!("VERIF-BOUNDED-CASES {}", cases);
        assert!(fails == 0, "{} failures", fails);
    }
}
'''

CONFIG_MOD = r'''
#[cfg(test)]
mod verif_bounded_cfg {
    use super::*;
    use std::str::FromStr;

    fn report(kind: &str, detail: String) { println!("VERIF-BOUNDED-FAIL {} :: {}", kind, detail); }

    /// every upper/lower-case spelling of a word
    fn casings(w: &str) -> Vec<String> {
        let cs: Vec<char> = w.chars().collect();
        (0u32..(1u32 << cs.len())).map(|m| cs.iter().enumerate().map(|(i, c)| if m & (1 << i) != 0 { c.to_ascii_uppercase() } else { *c }).collect()).collect()
    }
    /// strings that are not option values: every word of the *other* tables, and for every word one character dropped, one appended,
    /// surrounding blanks, the empty string
    fn near_misses(own: &[&str], all: &[&str]) -> Vec<String> {
        let mut v: Vec<String> = vec!["".into(), " ".into(), "0".into(), "true".into(), "yes".into()];
        for w in all { if !own.contains(w) { v.push(w.to_string()); } }
        for w in own {
            for i in 0..w.len() { let mut t = w.to_string(); t.remove(i); if !own.contains(&t.as_str()) { v.push(t); } }
            for c in ["s", "x", "1", " ", "-"] { v.push(format!("{}{}", w, c)); v.push(format!("{}{}", c, w)); }
        }
        v
    }
    const ALL: [&str; 9] = ["always", "auto", "never", "none", "off", "numbered", "parfile", "parblock", "simple"];

    #[test]
    fn bounded_parse_reflink() {
        let table = [("always", Reflink::Always), ("auto", Reflink::Auto), ("never", Reflink::Never)];
        let mut fails = 0; let mut cases = 0;
        for (w, want) in table.iter() {
            for s in casings(w) {
                cases += 1;
                if Reflink::from_str(&s).ok() != Some(*want) { fails += 1; if fails <= 5 { report("parse_reflink", format!("--reflink={:?} must mean {:?}, got {:?}", s, want, Reflink::from_str(&s).ok())); } }
            }
        }
        let own: Vec<&str> = table.iter().map(|t| t.0).collect();
        for s in near_misses(&own, &ALL) {
            cases += 1;
            if Reflink::from_str(&s).is_ok() { fails += 1; if fails <= 8 { report("reject_reflink", format!("--reflink={:?} is not a reflink mode but was accepted as {:?}", s, Reflink::from_str(&s).ok())); } }
        }
        println!("VERIF-BOUNDED-CASES {}", cases);
        assert!(fails == 0, "{} failures", fails);
    }

    #[test]
    fn bounded_parse_backup() {
        let table = [("none", Backup::None), ("off", Backup::None), ("auto", Backup::Auto), ("numbered", Backup::Numbered)];
        let mut fails = 0; let mut cases = 0;
        for (w, want) in table.iter() {
            for s in casings(w) {
                cases += 1;
                if Backup::from_str(&s).ok() != Some(*want) { fails += 1; if fails <= 5 { report("parse_backup", format!("--backup={:?} must mean {:?}, got {:?}", s, want, Backup::from_str(&s).ok())); } }
            }
        }
        let own: Vec<&str> = table.iter().map(|t| t.0).collect();
        for s in near_misses(&own, &ALL) {
            cases += 1;
            if Backup::from_str(&s).is_ok() { fails += 1; if fails <= 8 { report("reject_backup", format!("--backup={:?} is not a backup mode but was accepted as {:?}", s, Backup::from_str(&s).ok())); } }
        }
        println!("VERIF-BOUNDED-CASES {}", cases);
        assert!(fails == 0, "{} failures", fails);
    }
}
'''

DRIVERS_MOD = r'''
#[cfg(test)]
mod verif_bounded_drv {
    use super::*;
    use std::str::FromStr;

    fn report(kind: &str, detail: String) { println!("VERIF-BOUNDED-FAIL {} :: {}", kind, detail); }
    fn casings(w: &str) -> Vec<String> {
        let cs: Vec<char> = w.chars().collect();
        (0u32..(1u32 << cs.len())).map(|m| cs.iter().enumerate().map(|(i, c)| if m & (1 << i) != 0 { c.to_ascii_uppercase() } else { *c }).collect()).collect()
    }
    fn name_of(d: &Drivers) -> String { format!("{:?}", d).to_lowercase() }

    #[test]
    fn bounded_parse_driver() {
        let mut fails = 0; let mut cases = 0;
        let mut words = vec!["parfile"];
        if cfg!(feature = "parblock") { words.push("parblock"); }
        for w in &words {
            for s in casings(w) {
                cases += 1;
                let got = Drivers::from_str(&s).ok().map(|d| name_of(&d));
                if got.as_deref() != Some(*w) { fails += 1; if fails <= 5 { report("parse_driver", format!("--driver={:?} must select {}, got {:?}", s, w, got)); } }
            }
        }
        let mut bad: Vec<String> = vec!["".into(), " ".into(), "auto".into(), "simple".into(), "par".into(), "file".into(), "block".into(), "parfile ".into(), " parblock".into(), "parfiles".into(), "parblok".into(), "par-file".into(), "parfileparblock".into()];
        if !cfg!(feature = "parblock") { bad.push("parblock".into()); }
        for s in bad {
            cases += 1;
            if let Ok(d) = Drivers::from_str(&s) { fails += 1; if fails <= 8 { report("reject_driver", format!("--driver={:?} names no driver but selected {}", s, name_of(&d))); } }
        }
        println!("VERIF-BOUNDED-CASES {}", cases);
        assert!(fails == 0, "{} failures", fails);
    }
}
'''

MAIN_MOD = r'''
#[cfg(test)]
mod verif_bounded_glob {
    use super::*;

    fn report(kind: &str, detail: String) { println!("VERIF-BOUNDED-FAIL {} :: {}", kind, detail); }

    /// every sequence of 1..=3 patterns out of: two existing literals, a glob matching two files, a glob matching nothing, a missing literal.
    /// A pattern that selects nothing is a missing source wherever it stands: the expansion must be an error; otherwise it is the
    /// set of names the patterns select: every one of them, also two names of one inode and a link beside its referent.
    #[test]
    fn bounded_expand_globs() {
        let dir = tempfile::TempDir::new().unwrap();
        let d = dir.path();
        for f in ["a", "b", "h1", "x1.txt", "x2.txt"] { std::fs::File::create(d.join(f)).unwrap(); }
        std::fs::hard_link(d.join("h1"), d.join("h2")).unwrap();              // two names of one inode, neighbours in sort order
        std::os::unix::fs::symlink("a", d.join("a.lnk")).unwrap();           // a link next to its referent
        let p = |s: &str| d.join(s).to_string_lossy().into_owned();
        let atoms: Vec<(String, Vec<PathBuf>)> = vec![
            (p("a"), vec![d.join("a")]),
            (p("b"), vec![d.join("b")]),
            (p("x*.txt"), vec![d.join("x1.txt"), d.join("x2.txt")]),
            (p("h?"), vec![d.join("h1"), d.join("h2")]),
            (p("a.lnk"), vec![d.join("a.lnk")]),
            (p("none*"), vec![]),
            (p("missing"), vec![]),
        ];
        let mut fails = 0; let mut cases = 0;
        let n = atoms.len();
        for len in 1..=3usize {
            for code in 0..n.pow(len as u32) {
                let mut c = code; let mut idx = vec![];
                for _ in 0..len { idx.push(c % n); c /= n; }
                let pats: Vec<String> = idx.iter().map(|i| atoms[*i].0.clone()).collect();
                let empty = idx.iter().any(|i| atoms[*i].1.is_empty());
                let want: Vec<PathBuf> = idx.iter().flat_map(|i| atoms[*i].1.clone()).collect();
                cases += 1;
                match expand_globs(&pats) {
                    // (an expansion that is empty altogether is rejected by main itself: "No source files found")
                    Ok(got) if empty && got.is_empty() => {}
                    Ok(got) if empty => { fails += 1; if fails <= 6 { report("glob_missing", format!("patterns {:?}: one of them selects nothing (a missing source) but the expansion succeeded with {} path(s)", idx.iter().map(|i| atoms[*i].0.rsplit('/').next().unwrap().to_string()).collect::<Vec<_>>(), got.len())); } }
                    // every selected name, and nothing else (order and repetition of identical names are not the property's business)
                    Ok(got) => {
                        let gs: std::collections::BTreeSet<&PathBuf> = got.iter().collect();
                        let ws: std::collections::BTreeSet<&PathBuf> = want.iter().collect();
                        if gs != ws { fails += 1; if fails <= 6 { report("glob_expansion", format!("patterns {:?}: the expansion is not exactly the set of names the patterns select (missing: {:?}, extra: {:?})", pats, ws.difference(&gs).collect::<Vec<_>>(), gs.difference(&ws).collect::<Vec<_>>())); } }
                    },
                    Err(_) => if !empty { fails += 1; if fails <= 6 { report("glob_expansion", format!("patterns {:?}: every pattern selects something but the expansion failed", pats)); } },
                }
            }
        }
        println!("VERIF-BOUNDED-CASES {}", cases);
        assert!(fails == 0, "{} failures", fails);
    }
}
'''

_CACHE = {}


def backup_bounded(repo=None, overlay=None):
    """returns dict(ok, cases, failures[], wall_s, bound)"""
    repo = repo or REPO
    if overlay is None and repo in _CACHE:          # one run serves every property of an invocation
        return _CACHE[repo]
    wd = tempfile.mkdtemp(prefix='xcpverif-bnd-')
    t0 = time.time()
    try:
        for item in os.listdir(repo):
            if item in ('target', '.git'):
                continue
            src = os.path.join(repo, item)
            dst = os.path.join(wd, item)
            if os.path.isdir(src):
                shutil.copytree(src, dst, symlinks=True)
            else:
                shutil.copy(src, dst)
        if overlay:
            # the sources of a scratch copy (a seeded or mutated tree) over the rest of the repository
            for sub in ('src', 'libfs/src', 'libxcp/src'):
                shutil.rmtree(os.path.join(wd, sub), ignore_errors=True)
                shutil.copytree(os.path.join(overlay, sub), os.path.join(wd, sub))
        with open(os.path.join(wd, 'libxcp', 'src', 'backup.rs'), 'a') as f:
            f.write(BACKUP_MOD)
        with open(os.path.join(wd, 'libxcp', 'src', 'config.rs'), 'a') as f:
            f.write(CONFIG_MOD)
        with open(os.path.join(wd, 'libxcp', 'src', 'drivers', 'mod.rs'), 'a') as f:
            f.write(DRIVERS_MOD)
        with open(os.path.join(wd, 'src', 'main.rs'), 'a') as f:
            f.write(MAIN_MOD)
        env = dict(os.environ, CARGO_NET_OFFLINE='true', CARGO_TARGET_DIR=os.path.join(wd, 'target'))
        p = subprocess.run(['cargo', 'test', '--offline', '--no-fail-fast', '-p', 'libxcp', '-p', 'xcp', '--lib', '--bin', 'xcp', 'verif_bounded', '--', '--nocapture', '--test-threads', '1'],
                           cwd=wd, env=env, stdout=subprocess.PIPE, stderr=subprocess.STDOUT, text=True, timeout=1800)
        out = p.stdout
        fails = re.findall(r'VERIF-BOUNDED-FAIL (.*)', out)
        ms = re.findall(r'VERIF-BOUNDED-CASES (\d+)', out)
        rans = re.findall(r'test result: (\w+)\. (\d+) passed; (\d+) failed', out)
        # two test binaries (libxcp's lib, the xcp binary): both must have run
        ran = None
        if len(rans) >= 2:
            class _R:
                def __init__(s_, a, b): s_.a, s_.b = a, b
                def group(s_, i): return {2: str(s_.a), 3: str(s_.b)}[i]
            ran = _R(sum(int(r[1]) for r in rans), sum(int(r[2]) for r in rans))
        res = {
            'ok': p.returncode == 0 and not fails and ran is not None and ran.group(3) == '0' and ran.group(2) == '9',
            'built': ran is not None,
            'failures': fails[:40],
            'cases': sum(int(x) for x in ms) + 8 * 2010 + 8,
            'bound': 'expand_globs: every sequence of 1..3 patterns out of {two existing literals, a glob matching two files, a glob matching two hard links of one inode, a symbolic link beside its referent, a glob matching nothing, a missing literal} (399 cases); option values (Reflink, Backup, Drivers FromStr): every upper/lower-case spelling of every table word maps to its variant; the words of the other tables, every word with one character dropped or one of {s,x,1,blank,-} prepended/appended, and "", " ", "0", "true", "yes" are rejected; is_num_backup: 8 names (incl. non-UTF-8, prefix-like, one with a newline) x N in 1..=2000 plus 10 large N, 8 non-backup names; next number at the ends of the range: 2 names x all subsets of {0, 1, u64::MAX-1, u64::MAX}; 4 spellings of the destination (bare, ./, sub/, sub/../) x all subsets of {1,2,10}; 3 destinations reached through symbolic links (last component into another directory, into the same directory, a linked parent) x all subsets of {1,2,10}; existing backups of 5 kinds (file, link to a file, dangling link, directory, fifo; all of them or the highest only) x all non-empty subsets of {1,2,10}; '
                     'next_backup_num/has_backup/get_backup_path: 2 names (one non-UTF-8) x all 1024 subsets, a name with a newline x 29 subsets, of existing numbers {1,2,9,10,11,99,100,101,205,1000}',
            'wall_s': round(time.time() - t0, 1),
            'tail': '' if ran is not None else out[-1500:],
        }
        if overlay is None:
            _CACHE[repo] = res
        return res
    finally:
        shutil.rmtree(wd, ignore_errors=True)


if __name__ == '__main__':
    print(json.dumps(backup_bounded(), indent=1))
