"""Minimal Rust lexer: enough to find item boundaries, calls and anchors
without being fooled by strings, chars, lifetimes and (nested) comments.

A token is (kind, text, start, end) with byte^Wcharacter offsets into the
source string.  Kinds: 'ws', 'comment', 'str', 'char', 'lifetime', 'ident',
'num', 'punct'.  Concatenating all token texts gives the source back
(checked by `roundtrip`)."""
import re

IDENT_START = re.compile(r'[A-Za-z_]')
IDENT_RE = re.compile(r'[A-Za-z_][A-Za-z0-9_]*')
NUM_RE = re.compile(r'[0-9][0-9A-Za-z_]*(\.[0-9][0-9A-Za-z_]*)?')
WS_RE = re.compile(r'\s+')
RAWSTR_RE = re.compile(r'b?r(#*)"')
# multi-char punctuation we care to keep together
PUNCTS = ['..=', '...', '<<=', '>>=', '->', '=>', '::', '==', '!=', '<=', '>=',
          '&&', '||', '+=', '-=', '*=', '/=', '%=', '^=', '&=', '|=', '<<', '>>', '..']


class LexError(Exception):
    pass


def lex(src):
    toks = []
    i = 0
    n = len(src)
    while i < n:
        c = src[i]
        m = WS_RE.match(src, i)
        if m:
            toks.append(('ws', m.group(0), i, m.end()))
            i = m.end()
            continue
        if src.startswith('//', i):
            j = src.find('\n', i)
            if j < 0:
                j = n
            toks.append(('comment', src[i:j], i, j))
            i = j
            continue
        if src.startswith('/*', i):
            depth = 1
            j = i + 2
            while j < n and depth > 0:
                if src.startswith('/*', j):
                    depth += 1
                    j += 2
                elif src.startswith('*/', j):
                    depth -= 1
                    j += 2
                else:
                    j += 1
            if depth:
                raise LexError('unterminated block comment at %d' % i)
            toks.append(('comment', src[i:j], i, j))
            i = j
            continue
        m = RAWSTR_RE.match(src, i)
        if m:
            hashes = m.group(1)
            close = '"' + hashes
            j = src.find(close, m.end())
            if j < 0:
                raise LexError('unterminated raw string at %d' % i)
            j += len(close)
            toks.append(('str', src[i:j], i, j))
            i = j
            continue
        if c == '"' or (c == 'b' and i + 1 < n and src[i + 1] == '"'):
            j = i + (2 if c == 'b' else 1)
            while j < n and src[j] != '"':
                if src[j] == '\\':
                    j += 1
                j += 1
            if j >= n:
                raise LexError('unterminated string at %d' % i)
            j += 1
            toks.append(('str', src[i:j], i, j))
            i = j
            continue
        if c == "'" or (c == 'b' and i + 1 < n and src[i + 1] == "'"):
            k = i + (1 if c == 'b' else 0)
            # char literal: '\x..' or 'c' followed by '
            if k + 1 < n and src[k + 1] == '\\':
                j = k + 2
                while j < n and src[j] != "'":
                    j += 1
                j += 1
                toks.append(('char', src[i:j], i, j))
                i = j
                continue
            if k + 2 < n and src[k + 2] == "'":
                j = k + 3
                toks.append(('char', src[i:j], i, j))
                i = j
                continue
            if c == "'":
                m = IDENT_RE.match(src, i + 1)
                if m:
                    toks.append(('lifetime', src[i:m.end()], i, m.end()))
                    i = m.end()
                    continue
            # fallthrough: plain punct / ident starting with b
        m = IDENT_RE.match(src, i)
        if m:
            toks.append(('ident', m.group(0), i, m.end()))
            i = m.end()
            continue
        m = NUM_RE.match(src, i)
        if m:
            # do not swallow `0..blocks` as a float
            txt = m.group(0)
            if '.' in txt and src.startswith('..', i + txt.index('.')):
                txt = txt[:txt.index('.')]
            toks.append(('num', txt, i, i + len(txt)))
            i += len(txt)
            continue
        for p in PUNCTS:
            if src.startswith(p, i):
                toks.append(('punct', p, i, i + len(p)))
                i += len(p)
                break
        else:
            toks.append(('punct', c, i, i + 1))
            i += 1
    return toks


def roundtrip(src):
    return ''.join(t[1] for t in lex(src)) == src


def sig(toks):
    """significant tokens only (no whitespace/comments), with index into toks"""
    return [(k, t, s, e, idx) for idx, (k, t, s, e) in enumerate(toks) if k not in ('ws', 'comment')]


OPEN = {'(': ')', '[': ']', '{': '}'}
CLOSE = {')': '(', ']': '[', '}': '{'}


def match_close(st, i):
    """st: significant tokens; i: index of an opening bracket; returns index of its closer"""
    depth = 0
    for j in range(i, len(st)):
        k, t = st[j][0], st[j][1]
        if k != 'punct':
            continue
        if t in OPEN:
            depth += 1
        elif t in CLOSE:
            depth -= 1
            if depth == 0:
                return j
    raise LexError('unbalanced bracket at token %d' % i)


def norm(text):
    """whitespace/comment-insensitive normal form of a code snippet"""
    return ' '.join(t[1] for t in lex(text) if t[0] not in ('ws', 'comment'))
