"""Assemble gen.rs, run Verus, map diagnostics back to obligations and properties."""
import os
import re
import sys
import json
import time
import shutil
import hashlib
import tempfile
import subprocess

from . import rtok, extract, spec as specmod, gen as genmod, vacuity
from .extract import AnchorLost

VERIF = os.path.dirname(os.path.dirname(os.path.abspath(__file__)))
REPO = os.environ.get('VERIF_REPO', '/repo')
UNITS = ['libfs', 'fallback', 'libxcp', 'xcp']

VERIFICATION_MSGS = [
    'postcondition not satisfied',
    'precondition not satisfied',
    'precondition not met',
    'invariant not satisfied',
    'decreases not satisfied',
    'assertion failed',
    'possible arithmetic underflow/overflow',
    'possible division by zero',
    'possible bit shift underflow/overflow',
    'index out of bounds',
    'recommendation not met',
    'unreachable',
    'loop invariant',
    'loop ensures',
    'could not prove termination',
    'cannot show invariant holds',
    'failed this',
    'possible overflow',
    'constructed value may fail to meet its declared type invariant',
    'not all errors may have been reported',
    'possible missing case',
    'cannot prove',
]
RESOURCE_MSGS = ['rlimit', 'Resource limit', 'timed out', 'timeout']


class ToolError(Exception):
    """exit 2: the machinery could not decide (never an alarm)"""


def read(path):
    with open(path) as f:
        return f.read()


def load_effectful():
    eff = []
    p = os.path.join(VERIF, 'contracts', 'effectful.txt')
    for line in read(p).split('\n'):
        line = line.split('#')[0].strip()
        if line:
            eff += line.split()
    return eff


def table_keys(fns, gens_self):
    keys = {}
    for fs in fns:
        if fs.noworld:
            continue
        nm = fs.rename or fs.name
        if fs.slice:
            # slices and lifted jobs are called by their declared name
            m = re.search(r'fn\s+(\w+)', fs.sig)
            keys[m.group(1)] = fs.fid
            continue
        emit = fs.emit if fs.emit is not None else fs.scope
        if emit and emit != 'free':
            ty = re.sub(r'<.*', '', emit.split()[-1])
            if gens_self.get(fs.fid):
                keys['.' + nm] = fs.fid
            keys[ty + '::' + nm] = fs.fid
        else:
            keys[nm] = fs.fid
            keys['*::' + nm] = fs.fid
    return keys


def fn_shape(text):
    """hash of a function's text from its parameter list to the end of its body, whitespace- and comment-insensitive (the name is not part of it)"""
    st = rtok.sig(rtok.lex(text))
    fn_i = next(i for i, t in enumerate(st) if t[1] == 'fn')
    return hashlib.sha256(' '.join(t[1] for t in st[fn_i + 2:]).encode()).hexdigest()[:16]


def G_shapes():
    try:
        with open(os.path.join(VERIF, 'obligations.lock')) as f:
            return json.load(f).get('shapes', {})
    except (OSError, ValueError):
        return {}


def resolve_renamed(repo, fns, shapes):
    """R19: a function under contract that is no longer found under its name but whose exact body (parameter list to closing brace) is found
    under another name in the same scope of the same file is taken to be that function, renamed."""
    for fs in fns:
        if fs.slice or fs.rename or fs.fid not in shapes:
            continue
        src = read(os.path.join(repo, fs.src))
        try:
            extract.find_fn(src, fs.scope, fs.name)
            continue
        except extract.AnchorLost as e:
            if ': 0 candidates' not in str(e):
                continue
        toks, st, items = extract._scan_items(src)
        want = rtok.norm(fs.scope) if fs.scope else None
        hits = []
        for scopes, nm, start, fn_i, open_i, close_i in items:
            impls = [x for x in scopes if x.startswith('impl') or x.startswith('trait')]
            if (want is None and not impls) or (want is not None and impls and impls[-1] == want):
                if fn_shape(src[st[start][2]:st[close_i][3]]) == shapes[fs.fid]:
                    hits.append(nm)
        if len(hits) == 1:
            fs.src_name = hits[0]
            fs.renamed_note = 'R19 function `%s` found as `%s` (same parameter list and body)' % (fs.fid.split('::')[-1], hits[0])


def has_self(repo, fs):
    if fs.slice:
        return 'self' in fs.sig.split(')')[0]
    src = read(os.path.join(repo, fs.src))
    it = extract.find_fn(src, fs.scope, fs.name)
    st = rtok.sig(rtok.lex(it['text']))
    po = next(i for i, t in enumerate(st) if t[1] == '(')
    pc = rtok.match_close(st, po)
    return any(st[i][1] == 'self' for i in range(po, pc))


SPINOFF = os.environ.get('VERIF_SPINOFF', '1') == '1'


class Generated:
    def __init__(self):
        self.text = ''
        self.linemap = []       # index = gen line - 1 -> (fid or None, origin)
        self.fns = {}           # fid -> GenFn
        self.obligations = {}   # oid -> dict
        self.fn_ranges = []     # (first_line, last_line, fid)
        self.trusted = []       # list of strings
        self.prelude_files = []
        self.items = []
        self.hash = None
        self.monotone_injected = 0
        self.anchor_skipped = {}   # fid -> reason (function left out of this run because an anchor was lost)


def scan_trusted(text, fname):
    """mechanical scan of prelude text for trusted items"""
    out = []
    lines = text.split('\n')
    for i, l in enumerate(lines):
        if 'external_body' in l or 'assume_specification' in l or re.search(r'\buninterp\b', l) or \
                re.search(r'\b(assume|admit)\s*\(', l) or 'external_type_specification' in l or \
                re.search(r'#\[verifier::external\b', l) or re.search(r'\baxiom\b', l):
            # find the item name on this or the following lines
            name = None
            for j in range(i, min(i + 6, len(lines))):
                m = re.search(r'\b(fn|struct|enum|trait|type)\s+(\w+)', lines[j])
                if m:
                    name = m.group(2)
                    break
                m = re.search(r'assume_specification.*\[\s*([^\]]+)\]', lines[j])
                if m:
                    name = m.group(1).strip()
                    break
            kind = 'external_body' if 'external_body' in l else ('assume_specification' if 'assume_specification' in l else (
                'uninterp' if 'uninterp' in l else ('axiom' if 'axiom' in l else 'assume/admit')))
            out.append('%s %s (%s:%d)' % (kind, name or '?', fname, i + 1))
    return out


MIRRORS = [
    # (source file, item, prelude file, item in the prelude)
    ('libfs/src/errors.rs', 'enum Error', 'libfs_10_types.rs', 'enum Error'),
    ('libxcp/src/errors.rs', 'enum XcpError', 'libxcp_10_types.rs', 'enum XcpError'),
    ('libfs/src/lib.rs', 'enum FileType', 'libfs_10_types.rs', 'enum FileType'),
    ('libxcp/src/drivers/mod.rs', 'enum Drivers', 'xcp_10_main.rs', 'enum Drivers'),
]


def enum_variants(text):
    """[(variant name, number of tuple fields)] of an enum item text; attributes and comments ignored"""
    st = rtok.sig(rtok.lex(text))
    o = next(i for i, t in enumerate(st) if t[1] == '{')
    c = rtok.match_close(st, o)
    out = []
    i = o + 1
    while i < c:
        if st[i][1] == '#' and st[i + 1][1] == '[':
            i = rtok.match_close(st, i + 1) + 1
            continue
        if st[i][0] == 'ident':
            name = st[i][1]
            arity = 0
            j = i + 1
            if j < c and st[j][1] == '(':
                e = rtok.match_close(st, j)
                depth = 0
                arity = 1
                for k in range(j + 1, e):
                    if st[k][1] in ('(', '<', '['):
                        depth += 1
                    elif st[k][1] in (')', '>', ']'):
                        depth -= 1
                    elif st[k][1] == ',' and depth == 0 and k != e - 1:
                        arity += 1
                j = e + 1
            out.append((name, arity))
            while j < c and st[j][1] != ',':
                j += 1
            i = j + 1
            continue
        i += 1
    return out


def check_mirrors(repo):
    """hand-written type mirrors must list the same variants (names, arity) as the source; drift is a tool error"""
    for src, what, pfile, pwhat in MIRRORS:
        a = enum_variants(extract.find_item_text(read(os.path.join(repo, src)), what))
        b = enum_variants(extract.find_item_text(read(os.path.join(VERIF, 'prelude', pfile)), pwhat))
        if sorted(a) != sorted(b):
            raise ToolError('type mirror drift: %s `%s` has variants %s but prelude/%s has %s' % (src, what, sorted(a), pfile, sorted(b)))


CONST_RE = re.compile(r'^(?:pub(?:\([a-z]+\))?\s+)?const\s+([A-Z][A-Z0-9_]*)\s*:\s*(u8|u16|u32|u64|usize|i32|i64|bool|&\s*str|&\s*\'static\s+str)\s*=\s*([0-9][0-9A-Za-z_]*|true|false|"(?:[^"\\\\]|\\\\.)*")\s*;\s*(//.*)?$')


def module_consts(repo, paths):
    """[(name, text, src_path)]: top-level integer/bool constants with a literal value"""
    out = []
    for sp in sorted(paths):
        try:
            lines = read(os.path.join(repo, sp)).split('\n')
        except OSError:
            continue
        for l in lines:
            m = CONST_RE.match(l)    # column 0 only: module level
            if m:
                ty = m.group(2)
                if ty.replace(' ', '') == '&str':
                    ty = "&'static str"      # the elided lifetime of a const item, spelled out (the generated module is inside verus!)
                out.append((m.group(1), 'pub const %s: %s = %s;' % (m.group(1), ty, m.group(3)), sp))
    return out


def assemble(repo=REPO, mutate_hook=None, only_units=None, canary=False, skip=()):
    check_mirrors(repo)
    try:
        with open(os.path.join(VERIF, 'obligations.lock')) as f:
            genmod.LOCKED_BINDERS = json.load(f).get('binders', {})
    except (OSError, ValueError):
        genmod.LOCKED_BINDERS = {}
    fns = specmod.load_dir(os.path.join(VERIF, 'contracts'))
    eff = load_effectful()
    items = [f for f in fns if f.is_item]
    fns = [f for f in fns if not f.is_item]
    resolve_renamed(repo, fns, G_shapes())
    selfmap = {fs.fid: has_self(repo, fs) for fs in fns}
    names = {fs.name for fs in fns} | {fs.rename for fs in fns if fs.rename}
    for fs in fns:
        if fs.slice:
            m = re.search(r'fn\s+(\w+)', fs.sig)
            if m:
                names.add(m.group(1))
    for fn in os.listdir(os.path.join(VERIF, 'prelude')):
        if fn.endswith('.rs'):
            names |= set(re.findall(r'\bfn\s+(\w+)', read(os.path.join(VERIF, 'prelude', fn))))
    genmod.KNOWN_FN_NAMES = names
    genmod.driver_fn_shape = fn_shape
    tkeys = table_keys(fns, selfmap)
    G = Generated()
    out = []   # (line_text, fid, origin)

    def emit_text(text, fid, fname):
        for k, l in enumerate(text.rstrip('\n').split('\n')):
            out.append((l, fid, ('prelude', '%s:%d' % (fname, k + 1))))

    pdir = os.path.join(VERIF, 'prelude')
    pfiles = sorted(os.listdir(pdir))

    def prelude(prefix):
        for fn in pfiles:
            if fn.startswith(prefix) and fn.endswith('.rs'):
                t = read(os.path.join(pdir, fn))
                G.prelude_files.append(fn)
                if not fn.startswith('header') and not fn.startswith('lemma'):
                    G.trusted += scan_trusted(t, 'prelude/' + fn)
                    t, nmono = vacuity.inject_monotone(t)
                    G.monotone_injected += nmono
                # forbid assume/admit anywhere
                emit_text(t, None, 'prelude/' + fn)

    prelude('header')
    out.append(('verus! {', None, ('glue', None)))
    def emit_items(sel):
        for itm in sel:
            txt = extract.find_item_text(read(os.path.join(repo, itm.src)), itm.what)
            if itm.strip_attrs:
                # D1 inside an item: field attributes (`#[arg(..)]`) and doc comments are dropped, the field list itself is verbatim
                toks = rtok.lex(txt)
                st = rtok.sig(toks)
                spans = []
                i = 0
                while i < len(st) - 1:
                    if st[i][1] == '#' and st[i + 1][1] == '[':
                        c = rtok.match_close(st, i + 1)
                        spans.append((st[i][2], st[c][3]))
                        i = c + 1
                        continue
                    i += 1
                for a, b in reversed(spans):
                    txt = txt[:a] + txt[b:]
                txt = '\n'.join(l for l in txt.split('\n') if l.strip() and not l.strip().startswith('///'))
            for a in itm.attrs:
                out.append((a, None, ('glue', None)))
            for l in txt.split('\n'):
                out.append((l, None, ('item', itm.fid)))
            G.items.append({'item': itm.fid, 'src': itm.src, 'what': itm.what, 'sha': hashlib.sha256(txt.encode()).hexdigest()[:16]})

    # items that need derive(Structural) must live at the crate root (Verus limitation); they are re-exported into their unit
    emit_items([x for x in items if x.at == 'root'])
    prelude('root')
    for unit in UNITS:
        ufns = [f for f in fns if f.unit == unit]
        if not ufns and not any(fn.startswith(unit + '_') for fn in pfiles):
            continue
        out.append(('pub mod %s {' % unit, None, ('glue', None)))
        emit_items([x for x in items if x.unit == unit and x.at != 'root'])
        prelude(unit + '_')
        cur_emit = None
        for fs in ufns:
            if fs.fid in skip:
                fs.external = True
                fs.skipped = True
            try:
                g = genmod.build_fn(fs, repo, eff, tkeys.keys(), canary=canary and not fs.external)
            except AnchorLost as e:
                if fs.external:
                    raise
                # per-function degradation for a lost anchor / an unsupported loop shape: the function is left out of this run
                # (contract kept as an assumption for its callers); only the properties with obligations in it become undecided
                fs.external = True
                fs.skipped = True
                G.anchor_skipped[fs.fid] = str(e)[:200]
                try:
                    g = genmod.build_fn(fs, repo, eff, tkeys.keys(), canary=False)
                except AnchorLost:
                    raise e
            G.fns[fs.fid] = g
            emit = fs.emit if fs.emit is not None else fs.scope
            if emit == 'free':
                emit = None
            if emit != cur_emit:
                if cur_emit:
                    out.append(('}', None, ('glue', None)))
                if emit:
                    out.append((emit + ' {', None, ('glue', None)))
                cur_emit = emit
            for a in fs.attrs:
                out.append((a, fs.fid, ('glue', None)))
            if not fs.external and SPINOFF:
                # one prover instance per function: Verus schedules buckets, not functions, across its threads
                out.append(('#[verifier::spinoff_prover]', fs.fid, ('glue', None)))
            if fs.external:
                out.append(('#[verifier::external_body]', fs.fid, ('glue', None)))
                G.trusted.append('external_body %s (contract assumed, body not verified; %s)' % (fs.fid, fs.origin))
            first = len(out) + 1
            for (l, origin) in g.out_lines:
                out.append((l, fs.fid, origin))
            G.fn_ranges.append((first, len(out), fs.fid))
            for o in g.obligations:
                o = dict(o)
                o['fid'] = fs.fid
                G.obligations[o['oid']] = o
        if cur_emit:
            out.append(('}', None, ('glue', None)))
        # D2: module-level `const NAME: T = literal;` items of the source files that an extracted body mentions and that nothing in
        # the generated text declares are emitted verbatim (a literal replaced by a named constant must not leave the subset)
        sofar = '\n'.join(l for l, _f, _o in out)
        for cname, ctext, csrc in module_consts(repo, {G.fns[fs.fid].src_path for fs in ufns if fs.fid in G.fns}):
            if re.search(r'\b(const|static)\s+%s\b' % re.escape(cname), sofar):
                continue
            used = any(re.search(r'\b%s\b' % re.escape(cname), l) for fs in ufns if fs.fid in G.fns and G.fns[fs.fid].src_path == csrc
                       for l, _o in G.fns[fs.fid].out_lines)
            if used:
                out.append((ctext, None, ('item', 'const ' + cname)))
                G.items.append({'item': 'const ' + cname, 'src': csrc, 'what': 'module constant', 'sha': hashlib.sha256(ctext.encode()).hexdigest()[:16]})
        out.append(('} // mod %s' % unit, None, ('glue', None)))
    prelude('lemma')
    out.append(('} // verus!', None, ('glue', None)))
    out.append(('fn main() {}', None, ('glue', None)))

    # call-site obligations for table callees with requires, and safety obligations
    byfid = {fs.fid: fs for fs in fns}
    for fid, g in G.fns.items():
        fs = byfid[fid]
        if fs.external:
            # nothing is proved about an external body
            for oid in [o for o in G.obligations if G.obligations[o]['fid'] == fid]:
                del G.obligations[oid]
            continue
        G.obligations[fid + '/safety'] = {
            'oid': fid + '/safety', 'fid': fid, 'kind': 'safety', 'tags': fs.safety,
            'text': 'no arithmetic overflow/underflow, index or unwrap failure, and every precondition of a trusted stand-in holds, in %s' % fid,
            'origin': fs.origin}
        nsite = {}
        for key, line in g.calls:
            callee = tkeys.get(key) or tkeys.get('*::' + key.split('::')[-1])
            if not callee:
                continue
            cs = byfid[callee]
            nsite[callee] = nsite.get(callee, 0) + 1
            for k, c in enumerate(cs.requires, 1):
                oid = '%s/call:%s@%d/requires#%d' % (fid, callee, nsite[callee], k)
                G.obligations[oid] = {'oid': oid, 'fid': fid, 'kind': 'call-requires', 'tags': c.tags,
                                      'text': ' '.join(c.text.split()), 'origin': c.origin, 'line': line,
                                      'callee': callee, 'req': c.oid}
    G.text = '\n'.join(l for l, _, _ in out) + '\n'
    G.linemap = [(fid, origin) for _, fid, origin in out]
    G.hash = hashlib.sha256(G.text.encode()).hexdigest()[:16]
    G.specs = byfid
    G.tkeys = tkeys
    G.skipped = sorted(skip)
    # assume/admit are forbidden in contracts and extracted bodies
    for i, (l, fid, origin) in enumerate(out):
        if fid and re.search(r'\b(assume|admit)\s*\(', l) and origin[0] != 'prelude':
            raise ToolError('assume/admit found in generated function %s (gen line %d)' % (fid, i + 1))
    return G


def run_verus(G, workdir, rlimit=None, threads=None, extra=None, name='gen.rs', multiple_errors=40):
    path = os.path.join(workdir, name)
    with open(path, 'w') as f:
        f.write(G.text)
    cmd = ['verus', path, '--output-json', '--time', '--multiple-errors', str(multiple_errors), '--triggers-mode', 'silent',
           '--num-threads', str(threads or min(16, os.cpu_count() or 4))]
    if rlimit:
        cmd += ['--rlimit', str(rlimit)]
    if extra:
        cmd += extra
    cmd += ['--', '--error-format=json']
    t0 = time.time()
    env = dict(os.environ)
    p = subprocess.run(cmd, stdout=subprocess.PIPE, stderr=subprocess.PIPE, text=True, cwd=workdir, env=env)
    wall = time.time() - t0
    res = {'cmd': ' '.join(cmd), 'wall_s': wall, 'rc': p.returncode, 'diags': [], 'raw_err': [], 'json': None}
    try:
        res['json'] = json.loads(p.stdout)
    except Exception:
        res['raw_out'] = p.stdout[-4000:]
    for l in p.stderr.split('\n'):
        l = l.strip()
        if not l:
            continue
        if l.startswith('{'):
            try:
                res['diags'].append(json.loads(l))
                continue
            except Exception:
                pass
        res['raw_err'].append(l)
    return res


def classify(G, res):
    """returns (failed: dict oid -> list of diag summaries, tool_errors: list of str, fn_status)"""
    failed = {}
    tool = []
    G.tool_fids = set()
    G.tool_unmapped = False
    ranges = G.fn_ranges

    def fn_of_line(ln):
        for a, b, fid in ranges:
            if a <= ln <= b:
                return fid
        return None

    for d in res['diags']:
        if d.get('level') != 'error':
            continue
        msg = d.get('message', '')
        if msg.startswith('aborting due to'):
            continue
        spans = d.get('spans', [])
        summary = {'message': msg, 'spans': []}
        for s in spans:
            ln = s['line_start']
            fid, origin = G.linemap[ln - 1] if 0 < ln <= len(G.linemap) else (None, ('glue', None))
            txt = s['text'][0]['text'].strip() if s.get('text') else ''
            summary['spans'].append({'gen_line': ln, 'label': s.get('label'), 'primary': s.get('is_primary'),
                                     'fid': fid, 'origin': list(origin), 'text': txt[:200]})
        is_verif = any(m in msg for m in VERIFICATION_MSGS)
        is_resource = any(m in msg for m in RESOURCE_MSGS)
        if is_resource:
            tool.append('resource limit: %s' % msg)
            fids_here = {sp['fid'] for sp in summary['spans'] if sp.get('fid')}
            if fids_here:
                G.tool_fids |= fids_here
            else:
                G.tool_unmapped = True
            continue
        if not is_verif:
            loc = summary['spans'][0] if summary['spans'] else {}
            fids_here = {sp['fid'] for sp in summary['spans'] if sp.get('fid')}
            if fids_here:
                G.tool_fids |= fids_here
            else:
                G.tool_unmapped = True
            tool.append('verus/rustc error: %s  [gen line %s, fn %s, origin %s] %s' % (
                msg, loc.get('gen_line'), loc.get('fid'), loc.get('origin'), loc.get('text', '')))
            continue
        # which obligation?
        oid = None
        body_fid = None
        site_line = None
        site_text = None
        clause_oid = None
        req_oid = None
        for s in summary['spans']:
            o = s['origin']
            if o[0] == 'ob' and clause_oid is None:
                clause_oid = o[1]
            elif o[0] == 'req' and req_oid is None:
                req_oid = o[1]
            elif o[0] == 'canary' and 'assertion failed' in msg:
                clause_oid = o[1] + '/canary'
            if o[0] == 'src' and s['fid'] and body_fid is None:
                body_fid = s['fid']
                site_line = o[1]
                site_text = s['text']
        if body_fid is None:
            for s in summary['spans']:
                if s['fid']:
                    body_fid = s['fid']
                    break
        if req_oid is not None and 'precondition' in msg:
            # caller obligation: find the call-site obligation on that source line
            cands = [o for o in G.obligations.values() if o['kind'] == 'call-requires' and o['fid'] == body_fid and o['req'] == req_oid]
            exact = [o for o in cands if o.get('line') == site_line]
            pick = exact or cands
            if pick:
                oid = pick[0]['oid']
        elif clause_oid is not None:
            oid = clause_oid
        if oid is None and 'decreases' in msg and summary['spans']:
            # the span is the loop head; the obligation is that loop's `decreases` clause, which follows the head in the generated text
            ln0 = min(sp['gen_line'] for sp in summary['spans'])
            for ln in range(ln0, min(len(G.linemap), ln0 + 80)):
                f2, o2 = G.linemap[ln - 1]
                if o2[0] == 'ob' and '/decreases#' in str(o2[1]) and (body_fid is None or f2 == body_fid):
                    oid = o2[1]
                    break
        if oid is None:
            if body_fid is not None:
                oid = body_fid + '/safety'
            else:
                tool.append('unmapped verification failure: %s %s' % (msg, json.dumps(summary['spans'])[:400]))
                continue
        summary['site_line'] = site_line
        summary['site_text'] = site_text
        failed.setdefault(oid, []).append(summary)

    fn_status = {}
    j = res.get('json')
    if j:
        for m in j.get('times-ms', {}).get('smt', {}).get('smt-run-module-times', []):
            for fb in m.get('function-breakdown', []):
                fn_status[fb['function']] = {'ok': fb['success'], 'ms': fb['time'], 'rlimit': fb.get('rlimit'), 'mode': fb.get('mode:')}
    return failed, tool, fn_status
