"""Reachability probes behind every trusted contract (DESIGN.md §3.6b).

A trusted stand-in (`#[verifier::external_body] fn`) whose `ensures` is contradictory for one result variant makes every path that takes
that variant vacuous in every caller: everything verifies there, whatever the code does.  The fall-through canaries do not notice it.
For every trusted function of the generated file this module appends, in the same scope, one probe per result variant

    fn vxprobe__<name>__<variant>(<same params>) requires <same requires> { let r = <name>(<args>); match r { <variant> => assert(false), _ => {} } }

Every probe must FAIL.  A probe that verifies means: that result variant is unreachable under the assumed contract.  That is either
intended (listed in prelude/vacuity_allow.txt with the reason) or a contradictory assumption; the latter makes every check answer
`undecided` (exit 2), because nothing proved on top of a contradictory assumption means anything."""
import os
import re

from . import rtok

VERIF = os.path.dirname(os.path.dirname(os.path.abspath(__file__)))


def load_allow():
    allow = {}
    p = os.path.join(VERIF, 'prelude', 'vacuity_allow.txt')
    if os.path.exists(p):
        for l in open(p):
            l = l.strip()
            if not l or l.startswith('#'):
                continue
            k, _, why = l.partition(' ')
            allow[k] = why.strip()
    return allow


def _split_top(st, a, b, sep=','):
    """split significant tokens st[a:b] at top-level `sep`; returns list of (i0, i1) index ranges"""
    parts = []
    depth = 0
    angle = 0
    cur = a
    i = a
    while i < b:
        t = st[i][1]
        if t in ('(', '[', '{'):
            depth += 1
        elif t in (')', ']', '}'):
            depth -= 1
        elif t == '<':
            angle += 1
        elif t == '>' and angle > 0:
            angle -= 1
        elif t == '>>' and angle > 1:
            angle -= 2
        elif t == sep and depth == 0 and angle == 0:
            parts.append((cur, i))
            cur = i + 1
        i += 1
    if cur < b:
        parts.append((cur, b))
    return parts


def _enclosing(st, idx):
    """kind of the innermost block that contains token index idx: ('impl', header) / ('trait_impl', header) / ('trait', ..) / ('mod', ..) / ('root', '')"""
    depth = 0
    i = idx - 1
    while i >= 0:
        t = st[i][1]
        if t in (')', ']', '}'):
            depth += 1
        elif t in ('(', '['):
            depth -= 1
        elif t == '{':
            if depth == 0:
                # header: tokens back to the previous `;`, `}` or `{` at this level
                j = i - 1
                d2 = 0
                while j >= 0:
                    u = st[j][1]
                    if u in (')', ']'):
                        d2 += 1
                    elif u in ('(', '['):
                        d2 -= 1
                    elif u in (';', '}', '{') and d2 == 0:
                        break
                    j -= 1
                hdr = [x[1] for x in st[j + 1:i]]
                # drop attributes
                while hdr and hdr[0] == '#':
                    try:
                        k = hdr.index(']')
                    except ValueError:
                        break
                    hdr = hdr[k + 1:]
                if 'impl' in hdr:
                    return ('trait_impl' if 'for' in hdr else 'impl', ' '.join(hdr), i)
                if 'trait' in hdr:
                    return ('trait', ' '.join(hdr), i)
                if 'mod' in hdr:
                    return ('mod', ' '.join(hdr), i)
                if hdr and hdr[0] == 'verus' or 'verus' in hdr[:2]:
                    return ('root', '', i)
                return ('other', ' '.join(hdr), i)
            depth -= 1
        i -= 1
    return ('root', '', None)


def find_trusted(text):
    """yield dicts describing each `#[verifier::external_body]` function of the generated text"""
    toks = rtok.lex(text)
    st = [t for t in toks if t[0] not in ('ws', 'comment')]
    out = []
    i = 0
    n = len(st)
    while i < n - 6:
        if not (st[i][1] == '#' and st[i + 1][1] == '[' and st[i + 2][1] == 'verifier' and st[i + 3][1] == '::' and st[i + 4][1] == 'external_body' and st[i + 5][1] == ']'):
            i += 1
            continue
        attr_i = i
        j = i + 6
        # skip further attributes
        while st[j][1] == '#' and st[j + 1][1] == '[':
            j = rtok.match_close(st, j + 1) + 1
        quals = []
        while st[j][1] in ('pub', 'const', 'unsafe', 'proof', 'exec', 'spec', 'open', 'closed', 'uninterp', 'broadcast', 'extern', 'async'):
            quals.append(st[j][1])
            j += 1
            if st[j][1] == '(' and quals[-1] == 'pub':
                j = rtok.match_close(st, j) + 1
        if st[j][1] != 'fn':
            i = j
            continue
        name = st[j + 1][1]
        k = j + 2
        generics = ''
        if st[k][1] == '<':
            # match angle brackets
            d = 0
            g0 = k
            while True:
                if st[k][1] == '<':
                    d += 1
                elif st[k][1] == '>':
                    d -= 1
                elif st[k][1] == '>>':
                    d -= 2
                k += 1
                if d <= 0:
                    break
            generics = text[st[g0][2]:st[k - 1][3]]
        assert st[k][1] == '(', (name, st[k])
        pc = rtok.match_close(st, k)
        params = [(a, b) for a, b in _split_top(st, k + 1, pc)]
        k2 = pc + 1
        ret = None
        if st[k2][1] == '->':
            k2 += 1
            if st[k2][1] == '(' and st[k2 + 1][0] == 'ident' and st[k2 + 2][1] == ':':
                rc = rtok.match_close(st, k2)
                ret = text[st[k2 + 3][2]:st[rc - 1][3]]
                k2 = rc + 1
            else:
                r0 = k2
                d = 0
                while not (d == 0 and st[k2][1] in ('{', 'requires', 'ensures', 'where', 'recommends', 'decreases', 'opens_invariants', 'no_unwind')):
                    if st[k2][1] in ('(', '[', '<'):
                        d += 1
                    elif st[k2][1] in (')', ']', '>'):
                        d -= 1
                    k2 += 1
                ret = text[st[r0][2]:st[k2 - 1][3]]
        # the body of a trusted function is always `{ unimplemented!() }` (prelude convention; @external bodies are replaced by it)
        m = k2
        while not (st[m][1] == '{' and st[m + 1][1] == 'unimplemented' and st[m + 2][1] == '!' and st[m + 3][1] == '(' and st[m + 4][1] == ')' and st[m + 5][1] == '}'):
            m += 1
            if m + 5 >= n or st[m][1] == 'fn' and st[m - 1][1] not in ('spec', '(') :
                m = None
                break
        if m is None:
            # no `{ unimplemented!() }` body (e.g. `-> ! { loop {} }`): nothing is assumed about a result
            i = j + 1
            continue
        secs = {}
        sect = None
        s0 = None
        d = 0
        for q in range(k2, m + 1):
            t = st[q][1]
            if q == m or (d == 0 and t in ('where', 'requires', 'ensures', 'recommends', 'decreases', 'opens_invariants', 'no_unwind', 'returns', 'default_ensures')):
                if sect:
                    secs[sect] = text[st[s0][2]:st[q - 1][3]] if q > s0 else ''
                sect = t
                s0 = q + 1
            elif t in ('(', '[', '{'):
                d += 1
            elif t in (')', ']', '}'):
                d -= 1
        body_open = m
        body_close = rtok.match_close(st, body_open)
        mode = 'proof' if 'proof' in quals else ('spec' if 'spec' in quals else 'exec')
        kind, hdr, blk_i = _enclosing(st, attr_i)
        blk_end = st[rtok.match_close(st, blk_i)][3] if blk_i is not None and kind == 'trait_impl' else None
        ps = []
        for a, b in params:
            ptxt = text[st[a][2]:st[b - 1][3]]
            ps.append(ptxt)
        out.append({'name': name, 'generics': generics, 'params': ps, 'ret': ret, 'where': secs.get('where', ''), 'requires': secs.get('requires', ''),
                    'has_ensures': 'ensures' in secs, 'mode': mode, 'unsafe': 'unsafe' in quals, 'scope': kind, 'scope_hdr': hdr,
                    'end_off': st[body_close][3], 'blk_end': blk_end, 'body_off': st[body_open][2], 'pre_body_tok': st[body_open - 1][1], 'line': text.count('\n', 0, st[attr_i][2]) + 1})
        i = body_close + 1
    return out


def _arg_of(p):
    p = p.strip()
    if re.match(r"^(&\s*('\w+\s+)?)?(mut\s+)?self$", p):
        return None
    m = re.match(r'^Tracked\((\w+)\)\s*:', p)
    if m:
        return 'Tracked(%s)' % m.group(1)
    m = re.match(r'^Ghost\((\w+)\)\s*:', p)
    if m:
        return 'Ghost(%s)' % m.group(1)
    m = re.match(r'^(?:mut\s+)?(\w+)\s*:', p)
    if m:
        return m.group(1)
    return '?'


def variants_of(ret):
    if ret is None:
        return [('any', None)]
    r = ret.strip()
    if re.match(r'^(std::result::|io::|std::io::|core::result::)?Result\s*<', r) or r.startswith('Result<') or re.match(r'^\w*Result$', r):
        return [('ok', 'Ok(_)'), ('err', 'Err(_)')]
    if re.match(r'^(std::option::)?Option\s*<', r):
        return [('some', 'Some(_)'), ('none', 'None')]
    if r == 'bool':
        return [('true', 'true'), ('false', 'false')]
    return [('any', None)]


def _impl_header(hdr):
    """`impl <G> Trait for Type where ..` (tokens joined by spaces) -> (generics_inner, type_text, where_text)"""
    toks = hdr.split(' ')
    i = toks.index('impl') + 1
    gen = ''
    if i < len(toks) and toks[i] == '<':
        d = 0
        g0 = i
        while True:
            if toks[i] == '<':
                d += 1
            elif toks[i] == '>':
                d -= 1
            elif toks[i] == '>>':
                d -= 2
            i += 1
            if d <= 0:
                break
        gen = ' '.join(toks[g0 + 1:i - 1])
    f = toks.index('for', i)
    rest = toks[f + 1:]
    where = ''
    if 'where' in rest:
        k = rest.index('where')
        where = ' '.join(rest[k + 1:])
        rest = rest[:k]
    return gen, ' '.join(rest), where


def find_trait_decls(text):
    """method declarations with an `ensures` inside `trait X { .. }` blocks (contract assumed of every implementation)"""
    toks = rtok.lex(text)
    st = [t for t in toks if t[0] not in ('ws', 'comment')]
    out = []
    for i in range(len(st) - 2):
        if not (st[i][1] == 'trait' and st[i + 1][0] == 'ident' and st[i - 1][1] in ('pub', ']', '}', ';', '{', ')')):
            continue
        tname = st[i + 1][1]
        j = i + 2
        while st[j][1] not in ('{', ';'):
            j += 1
        if st[j][1] != '{':
            continue
        close = rtok.match_close(st, j)
        k = j + 1
        while k < close:
            if st[k][1] == 'fn' and st[k - 1][1] not in ('spec', 'proof'):
                name = st[k + 1][1]
                po = k + 2
                if st[po][1] != '(':
                    k += 1
                    continue
                pc = rtok.match_close(st, po)
                params = [text[st[a][2]:st[b - 1][3]] for a, b in _split_top(st, po + 1, pc)]
                q = pc + 1
                ret = None
                if st[q][1] == '->' and st[q + 1][1] == '(' and st[q + 3][1] == ':':
                    rc = rtok.match_close(st, q + 1)
                    ret = text[st[q + 4][2]:st[rc - 1][3]]
                    q = rc + 1
                # clauses up to `;` or `{` at depth 0
                d = 0
                e = q
                secs = {}
                sect = None
                s0 = None
                while True:
                    t = st[e][1]
                    if d == 0 and t in (';',) or (d == 0 and t == '{' and st[e - 1][1] in (',', ')') and sect is None):
                        break
                    if d == 0 and t in ('requires', 'ensures'):
                        if sect:
                            secs[sect] = text[st[s0][2]:st[e - 1][3]]
                        sect = t
                        s0 = e + 1
                    elif t in ('(', '[', '{'):
                        d += 1
                    elif t in (')', ']', '}'):
                        d -= 1
                    e += 1
                if sect:
                    secs[sect] = text[st[s0][2]:st[e - 1][3]]
                if 'ensures' in secs:
                    out.append({'trait': tname, 'name': name, 'params': params, 'ret': ret, 'requires': secs.get('requires', ''),
                                'end_off': st[close][3], 'line': text.count('\n', 0, st[k][2]) + 1})
                k = e
            k += 1
    return out


def _self_kind(p):
    m = re.match(r"^(&\s*('\w+\s+)?)?(mut\s+)?self$", p.strip())
    if not m:
        return None
    if m.group(1) is None:
        return ''
    return '&mut ' if m.group(3) else '&'


def make_probes(text):
    """returns (new_text, probes, skipped) where probes = [{'id', 'line' (1-based line of the assert in new_text), 'target', 'variant'}]"""
    fns = find_trusted(text)
    inserts = []   # (offset, text, [(probe_id, f, variant)])
    skipped = []
    seen_names = {}

    def emit(f, name, generics, params, where, requires, call, off, mode='exec'):
        seen_names[name] = seen_names.get(name, 0) + 1
        uniq = '' if seen_names[name] == 1 else '_%d' % seen_names[name]
        chunk = []
        ids = []
        ann = (': ' + f['ret'].strip()) if f['ret'] and 'impl ' not in f['ret'] else ''
        for vname, pat in variants_of(f['ret']):
            pid = 'vxprobe__%s%s__%s' % (name, uniq, vname)
            sig = '%sfn %s%s(%s)' % ('proof ' if mode == 'proof' else '', pid, generics, ', '.join(params))
            lines = ['#[allow(unused_variables, unused_mut)]', sig]
            if where.strip():
                lines.append('    where ' + where.strip().rstrip(','))
            if requires.strip():
                lines.append('    requires ' + ' '.join(requires.split()).rstrip(',') + ',')
            lines.append('{')
            if mode == 'proof':
                lines.append('    %s;' % call)
                lines.append('    assert(false);')
            elif pat is None:
                lines.append('    let _vx_r%s = %s;' % (ann, call))
                lines.append('    assert(false);')
            elif pat in ('true', 'false'):
                lines.append('    let _vx_r%s = %s;' % (ann, call))
                lines.append('    if %s_vx_r {' % ('' if pat == 'true' else '!'))
                lines.append('        assert(false);')
                lines.append('    }')
            else:
                lines.append('    let _vx_r%s = %s;' % (ann, call))
                lines.append('    match _vx_r { %s => {' % pat)
                lines.append('        assert(false);')
                lines.append('    } _ => {} }')
            lines.append('}')
            ids.append((pid, f, vname))
            chunk += lines
        inserts.append((off, '\n' + '\n'.join(chunk) + '\n', ids))

    for f in fns:
        if f['mode'] == 'spec':
            continue
        if not f['has_ensures']:
            continue     # nothing assumed about the result: nothing to contradict
        if f['scope'] in ('trait', 'other'):
            skipped.append('%s (line %d, inside %s)' % (f['name'], f['line'], f['scope_hdr'][:60]))
            continue
        args = [_arg_of(p) for p in f['params']]
        if '?' in args:
            skipped.append('%s (line %d, parameter pattern not understood)' % (f['name'], f['line']))
            continue
        has_self = any(a is None for a in args)
        call_args = ', '.join(a for a in args if a is not None)
        if f['scope'] == 'trait_impl':
            # free function after the impl block; the receiver becomes an ordinary parameter
            try:
                gen, ty, wh = _impl_header(f['scope_hdr'])
            except ValueError:
                skipped.append('%s (line %d, impl header not understood)' % (f['name'], f['line']))
                continue
            if not has_self or "'" in ''.join(f['params']):
                skipped.append('%s (line %d, trait impl function without plain receiver)' % (f['name'], f['line']))
                continue
            fg = f['generics'].strip()[1:-1] if f['generics'].strip() else ''
            generics = '<%s>' % ', '.join(x for x in (gen, fg) if x) if (gen or fg) else ''
            params = [('vxs: %s%s' % (_self_kind(p), ty)) if _self_kind(p) is not None else p for p in f['params']]
            where = ', '.join(x for x in (wh, f['where']) if x.strip())
            call = 'vxs.%s(%s)' % (f['name'], call_args)
            emit(f, f['name'], generics, params, where, re.sub(r'\bself\b', 'vxs', f['requires']), call, f['blk_end'])
            continue
        call = ('self.%s(%s)' if has_self else ('Self::%s(%s)' if f['scope'] == 'impl' else '%s(%s)')) % (f['name'], call_args)
        if f['unsafe']:
            call = 'unsafe { %s }' % call
        emit(f, f['name'], f['generics'], f['params'], f['where'], f['requires'], call, f['end_off'], f['mode'])

    for t in find_trait_decls(text):
        args = [_arg_of(p) for p in t['params']]
        if '?' in args or not any(a is None for a in args):
            skipped.append('%s::%s (line %d, trait method shape not understood)' % (t['trait'], t['name'], t['line']))
            continue
        params = [('vxs: %sVXT' % _self_kind(p)) if _self_kind(p) is not None else p for p in t['params']]
        call = 'vxs.%s(%s)' % (t['name'], ', '.join(a for a in args if a is not None))
        f = {'ret': t['ret'], 'name': '%s::%s' % (t['trait'], t['name']), 'scope_hdr': 'trait ' + t['trait'], 'line': t['line']}
        emit(f, '%s_%s' % (t['trait'], t['name']), '<VXT: %s + ?Sized>' % t['trait'], params, '', re.sub(r'\bself\b', 'vxs', t['requires']), call, t['end_off'])

    # apply inserts back to front; find the absolute lines afterwards through the unique probe names
    new = text
    for off, t, ids in sorted(inserts, key=lambda x: -x[0]):
        new = new[:off] + t + new[off:]
    probes = []
    nl = new.split('\n')
    idx = {}
    for ln, l in enumerate(nl, 1):
        m = re.search(r'fn (vxprobe__\w+)', l)
        if m:
            idx[m.group(1)] = ln
    for off, t, ids in inserts:
        for pid, f, vname in ids:
            start = idx[pid]
            ln = start
            while 'assert(false);' not in nl[ln - 1]:
                ln += 1
            end = ln
            while nl[end - 1] != '}':
                end += 1
            probes.append({'id': pid, 'line': ln, 'first': start - 1, 'last': end, 'target': f['name'], 'variant': vname, 'scope': f['scope_hdr'], 'src_line': f['line']})
    return new, probes, skipped


def evaluate(probes, diags):
    """diags: verus diagnostics of the probe file.  returns (failed_as_required: set of ids, verified: list of ids, broken: list of (id, message))"""
    by_line = {}
    for p in probes:
        by_line[p['line']] = p
    failed = set()
    broken = []
    for d in diags:
        if d.get('level') != 'error':
            continue
        msg = d.get('message', '')
        if msg.startswith('aborting due to'):
            continue
        hit = None
        for s in d.get('spans', []):
            for p in probes:
                if p['first'] <= s['line_start'] <= p['last']:
                    hit = p
                    break
            if hit:
                break
        if hit is None:
            continue
        if 'assertion failed' in msg and any(s['line_start'] == hit['line'] for s in d.get('spans', [])):
            failed.add(hit['id'])
        else:
            broken.append((hit['id'], msg[:160]))
    bids = {b[0] for b in broken}
    verified = [p['id'] for p in probes if p['id'] not in failed and p['id'] not in bids]
    return failed, verified, broken


MONO = 'final({w}).faults >= old({w}).faults, final({w}).tolerated >= old({w}).tolerated'


def inject_monotone(text):
    """A-monotone: every trusted function that takes the mutable world token also promises that the failure counters only grow.
    Inserted on the line of the body's `{` so that line numbers do not move.  Returns (text, n_injected)."""
    fns = find_trusted(text)
    edits = []
    for f in fns:
        wname = None
        for p in f['params']:
            m = re.match(r'^\s*Tracked\((\w+)\)\s*:\s*Tracked\s*<\s*&\s*mut\s+World\s*>\s*$', p)
            if m:
                wname = m.group(1)
        if not wname or f['mode'] != 'exec':
            continue
        clause = MONO.format(w=wname)
        if f['has_ensures']:
            t = (' ' if f['pre_body_tok'] == ',' else ', ') + clause + ', '
        else:
            t = ' ensures ' + clause + ', '
        edits.append((f['body_off'], t))
    for off, t in sorted(edits, key=lambda e: -e[0]):
        text = text[:off] + t.lstrip(' ') + text[off:]
    return text, len(edits)
